package main

import (
	"fmt"
	"go/ast"
	"go/parser"
	"go/printer"
	"go/token"
	"os"
	"path/filepath"
	"reflect"
	"sort"
	"strings"
)

// extractAll emits the structural facts the concurrent / crash theorems take as hypotheses:
//   - every goleveldb Write call in leveldb/ and the Sync flag of the WriteOptions reaching it (C10)
//   - the critical-section shape of the persister read and flush paths (C11)
//   - "the whole method body is one critical section" for the components whose sequential theorems are lifted to
//     every schedule (C14)
//   - the lock-order graph of txcache / immunitycache / lrucache / timecache / leveldb (C14: acyclic ⇒ no lock-cycle deadlock)
func extractAll(repo string) string {
	var sb strings.Builder
	sb.WriteString(leveldbWrites(repo))
	sb.WriteString(persisterSections(repo))
	sb.WriteString(singleSections(repo))
	sb.WriteString(moreSections(repo))
	sb.WriteString(batchEffects(repo))
	sb.WriteString(lockOrder(repo))
	return sb.String()
}

type pkgFuncs struct {
	fset  *token.FileSet
	funcs map[string]*ast.FuncDecl // "Recv.Name" or "Name"
	files map[string]string        // func key → file
}

func parsePkg(dir string) *pkgFuncs {
	p := &pkgFuncs{fset: token.NewFileSet(), funcs: map[string]*ast.FuncDecl{}, files: map[string]string{}}
	entries, _ := os.ReadDir(dir)
	for _, e := range entries {
		n := e.Name()
		if !strings.HasSuffix(n, ".go") || strings.HasSuffix(n, "_test.go") || strings.HasPrefix(n, "verif_") {
			continue
		}
		f, err := parser.ParseFile(p.fset, filepath.Join(dir, n), nil, 0)
		if err != nil {
			continue
		}
		for _, d := range f.Decls {
			fd, ok := d.(*ast.FuncDecl)
			if !ok || fd.Body == nil {
				continue
			}
			key := fd.Name.Name
			if fd.Recv != nil && len(fd.Recv.List) > 0 {
				key = recvName(fd.Recv.List[0].Type) + "." + key
			}
			p.funcs[key] = fd
			p.files[key] = n
		}
	}
	return p
}

func recvName(e ast.Expr) string {
	switch x := e.(type) {
	case *ast.StarExpr:
		return recvName(x.X)
	case *ast.Ident:
		return x.Name
	}
	return "?"
}

// selector path of an expression like s.mutBatch.Lock → ["s","mutBatch","Lock"]
func selPath(e ast.Expr) []string {
	switch x := e.(type) {
	case *ast.SelectorExpr:
		return append(selPath(x.X), x.Sel.Name)
	case *ast.Ident:
		return []string{x.Name}
	case *ast.CallExpr:
		return selPath(x.Fun)
	}
	return nil
}

func callPath(s ast.Stmt) []string {
	switch x := s.(type) {
	case *ast.ExprStmt:
		if c, ok := x.X.(*ast.CallExpr); ok {
			return selPath(c.Fun)
		}
	case *ast.DeferStmt:
		return append([]string{"defer"}, selPath(x.Call.Fun)...)
	}
	return nil
}

func containsCall(n ast.Node, suffix ...string) bool {
	found := false
	ast.Inspect(n, func(x ast.Node) bool {
		if c, ok := x.(*ast.CallExpr); ok {
			p := selPath(c.Fun)
			if len(p) >= len(suffix) {
				ok := true
				for i := range suffix {
					if p[len(p)-len(suffix)+i] != suffix[i] {
						ok = false
					}
				}
				if ok {
					found = true
				}
			}
		}
		return !found
	})
	return found
}

func leanBool(b bool) string {
	if b {
		return "true"
	}
	return "false"
}

// ---- C10: goleveldb writes and their Sync flag

func leveldbWrites(repo string) string {
	p := parsePkg(filepath.Join(repo, "leveldb"))
	type w struct {
		fn   string
		sync bool
		lit  bool
	}
	var ws []w
	keys := make([]string, 0, len(p.funcs))
	for k := range p.funcs {
		keys = append(keys, k)
	}
	sort.Strings(keys)
	for _, k := range keys {
		fd := p.funcs[k]
		// a goleveldb write: a call X.Write(batch, opts) with two arguments
		nWrites := 0
		ast.Inspect(fd.Body, func(x ast.Node) bool {
			if c, ok := x.(*ast.CallExpr); ok {
				if s, ok := c.Fun.(*ast.SelectorExpr); ok && s.Sel.Name == "Write" && len(c.Args) == 2 {
					nWrites++
				}
			}
			return true
		})
		if nWrites == 0 {
			continue
		}
		sync, lit := false, false
		ast.Inspect(fd.Body, func(x ast.Node) bool {
			if cl, ok := x.(*ast.CompositeLit); ok {
				if s, ok := cl.Type.(*ast.SelectorExpr); ok && s.Sel.Name == "WriteOptions" {
					lit = true
					for _, el := range cl.Elts {
						if kv, ok := el.(*ast.KeyValueExpr); ok {
							if id, ok := kv.Key.(*ast.Ident); ok && id.Name == "Sync" {
								if v, ok := kv.Value.(*ast.Ident); ok && v.Name == "true" {
									sync = true
								}
							}
						}
					}
				}
			}
			return true
		})
		for i := 0; i < nWrites; i++ {
			ws = append(ws, w{k, sync, lit})
		}
	}
	var sb strings.Builder
	sb.WriteString("/-- every goleveldb `Write(batch, opts)` call of package leveldb: (function, Sync flag of the WriteOptions literal in that function) -/\n")
	sb.WriteString("def leveldbWrites : List (String × Bool) := [")
	for i, x := range ws {
		if i > 0 {
			sb.WriteString(", ")
		}
		fmt.Fprintf(&sb, "(%q, %s)", x.fn, leanBool(x.sync && x.lit))
	}
	sb.WriteString("]\n\n")
	// WHAT is written: the first argument of every such call (the model flushes the batch's own record list, in order)
	var args []string
	for _, k := range keys {
		fd := p.funcs[k]
		ast.Inspect(fd.Body, func(x ast.Node) bool {
			if c, ok := x.(*ast.CallExpr); ok {
				if s, ok := c.Fun.(*ast.SelectorExpr); ok && s.Sel.Name == "Write" && len(c.Args) == 2 {
					var b strings.Builder
					_ = printer.Fprint(&b, p.fset, c.Args[0])
					args = append(args, fmt.Sprintf("%q", k+": "+strings.Join(strings.Fields(b.String()), " ")))
				}
			}
			return true
		})
	}
	sb.WriteString("/-- what every goleveldb `Write` call of package leveldb writes: (function: first argument) -/\n")
	sb.WriteString("def leveldbWriteArgs : List String := [" + strings.Join(args, ", ") + "]\n\n")
	return sb.String()
}

// ---- C11: critical-section shape of the persister read and flush paths

// topIndex returns the index of the first top-level statement satisfying pred (or -1)
func topIndex(body *ast.BlockStmt, from int, pred func(ast.Stmt) bool) int {
	for i := from; i < len(body.List); i++ {
		if pred(body.List[i]) {
			return i
		}
	}
	return -1
}

func isCall(s ast.Stmt, path ...string) bool {
	p := callPath(s)
	if len(p) != len(path) {
		return false
	}
	for i := range p {
		if p[i] != path[i] {
			return false
		}
	}
	return true
}

// batchReadsAtomic: RLock(); if IsRemoved {…}; data := batch.Get(); RUnlock() — in this order at top level,
// with no top-level RUnlock between the two batch lookups
func batchReadsAtomic(fd *ast.FuncDecl) bool {
	if fd == nil {
		return false
	}
	b := fd.Body
	iLock := topIndex(b, 0, func(s ast.Stmt) bool {
		return isCall(s, "s", "mutBatch", "RLock") || isCall(s, "s", "mutBatch", "Lock")
	})
	if iLock < 0 {
		return false
	}
	iRem := topIndex(b, iLock+1, func(s ast.Stmt) bool {
		ifs, ok := s.(*ast.IfStmt)
		return ok && containsCall(ifs.Cond, "batch", "IsRemoved")
	})
	if iRem < 0 {
		return false
	}
	iGet := topIndex(b, iRem+1, func(s ast.Stmt) bool {
		as, ok := s.(*ast.AssignStmt)
		return ok && containsCall(as, "batch", "Get")
	})
	if iGet < 0 {
		return false
	}
	iUn := topIndex(b, iLock+1, func(s ast.Stmt) bool {
		return isCall(s, "s", "mutBatch", "RUnlock") || isCall(s, "s", "mutBatch", "Unlock")
	})
	deferred := topIndex(b, iLock+1, func(s ast.Stmt) bool {
		return isCall(s, "defer", "s", "mutBatch", "RUnlock") || isCall(s, "defer", "s", "mutBatch", "Unlock")
	})
	if deferred >= 0 && deferred < iRem {
		return true
	}
	return iUn > iGet
}

// batchReadsAtomicDeep: the pattern may also live in a method of the same receiver that the function calls at top level
// (a helper extracted from Get and Has): the helper then IS the critical section
func batchReadsAtomicDeep(p *pkgFuncs, recv, name string) bool {
	fd := p.funcs[recv+"."+name]
	if fd == nil {
		return false
	}
	if batchReadsAtomic(fd) {
		return true
	}
	for _, st := range fd.Body.List {
		ok := false
		ast.Inspect(st, func(n ast.Node) bool {
			c, isCall := n.(*ast.CallExpr)
			if !isCall {
				return true
			}
			if sel, isSel := c.Fun.(*ast.SelectorExpr); isSel {
				if id, isId := sel.X.(*ast.Ident); isId && id.Name == "s" {
					if h := p.funcs[recv+"."+sel.Sel.Name]; h != nil && h != fd && batchReadsAtomic(h) {
						ok = true
					}
				}
			}
			return true
		})
		if ok {
			// no other batch lookup of its own next to the helper's
			own := false
			for _, o := range fd.Body.List {
				if o != st && (containsCall(o, "batch", "IsRemoved") || containsCall(o, "batch", "Get")) {
					own = true
				}
			}
			return !own
		}
	}
	return false
}

// flushHoldsLock: the batch mutex is taken before the batch is swapped/written and released only after the write returned
func serialFlushHoldsLock(fd *ast.FuncDecl) bool {
	if fd == nil {
		return false
	}
	b := fd.Body
	iLock := topIndex(b, 0, func(s ast.Stmt) bool { return isCall(s, "s", "mutBatch", "Lock") })
	if iLock < 0 {
		return false
	}
	iSend := topIndex(b, iLock+1, func(s ast.Stmt) bool { return containsCall(s, "s", "tryWriteInDbAccessChan") })
	iRecv := topIndex(b, iLock+1, func(s ast.Stmt) bool {
		found := false
		ast.Inspect(s, func(x ast.Node) bool {
			if u, ok := x.(*ast.UnaryExpr); ok && u.Op == token.ARROW {
				found = true
			}
			return !found
		})
		return found
	})
	if iSend < 0 || iRecv < 0 {
		return false
	}
	deferred := topIndex(b, iLock+1, func(s ast.Stmt) bool { return isCall(s, "defer", "s", "mutBatch", "Unlock") })
	if deferred >= 0 && deferred < iSend {
		// no explicit top-level Unlock before the write
		iUn := topIndex(b, iLock+1, func(s ast.Stmt) bool { return isCall(s, "s", "mutBatch", "Unlock") })
		return iUn < 0 || iUn > iRecv
	}
	iUn := topIndex(b, iLock+1, func(s ast.Stmt) bool { return isCall(s, "s", "mutBatch", "Unlock") })
	return iUn > iRecv
}

func dbFlushHoldsLock(fd *ast.FuncDecl) bool {
	if fd == nil {
		return false
	}
	b := fd.Body
	iLock := topIndex(b, 0, func(s ast.Stmt) bool { return isCall(s, "s", "mutBatch", "Lock") })
	if iLock < 0 {
		return false
	}
	deferred := topIndex(b, iLock+1, func(s ast.Stmt) bool { return isCall(s, "defer", "s", "mutBatch", "Unlock") })
	iPut := topIndex(b, iLock+1, func(s ast.Stmt) bool { return containsCall(s, "s", "putBatch") })
	iReset := topIndex(b, iLock+1, func(s ast.Stmt) bool { return containsCall(s, "batch", "Reset") })
	return deferred >= 0 && iPut > deferred && iReset > iPut
}

// resetOnlyAfterSuccessfulWrite: every `….batch.Reset()` of the function sits in a block in which it is preceded by
// `err := s.putBatch(…)` and an `if err != nil { …; return | continue }` between the two — a failed LevelDB write leaves the
// pending batch as it is (the next flush retries it); a Reset inside a `defer` or a function literal is refused
func resetOnlyAfterSuccessfulWrite(fd *ast.FuncDecl) bool {
	if fd == nil {
		return false
	}
	found, ok := 0, true
	ast.Inspect(fd.Body, func(n ast.Node) bool {
		switch x := n.(type) {
		case *ast.FuncLit, *ast.DeferStmt:
			ast.Inspect(x, func(m ast.Node) bool {
				if st, isStmt := m.(ast.Stmt); isStmt && containsCall(st, "batch", "Reset") {
					ok = false
				}
				return ok
			})
			return false
		case *ast.BlockStmt, *ast.CommClause, *ast.CaseClause:
			var list []ast.Stmt
			switch y := x.(type) {
			case *ast.BlockStmt:
				list = y.List
			case *ast.CommClause:
				list = y.Body
			case *ast.CaseClause:
				list = y.Body
			}
			for i, st := range list {
				es, isExpr := st.(*ast.ExprStmt)
				if !isExpr || !containsCall(es, "batch", "Reset") {
					continue
				}
				found++
				guarded := false
				for j := 0; j+1 < i+1 && j < i; j++ {
					as, isAs := list[j].(*ast.AssignStmt)
					if !isAs || !containsCall(as, "s", "putBatch") || len(as.Lhs) != 1 {
						continue
					}
					id, isID := as.Lhs[0].(*ast.Ident)
					if !isID || j+1 >= i+1 {
						continue
					}
					is, isIf := list[j+1].(*ast.IfStmt)
					if !isIf || is.Init != nil || len(is.Body.List) == 0 {
						continue
					}
					be, isBin := is.Cond.(*ast.BinaryExpr)
					if !isBin || be.Op != token.NEQ {
						continue
					}
					l, lok := be.X.(*ast.Ident)
					r, rok := be.Y.(*ast.Ident)
					if !lok || !rok || l.Name != id.Name || r.Name != "nil" {
						continue
					}
					switch last := is.Body.List[len(is.Body.List)-1].(type) {
					case *ast.ReturnStmt:
						guarded = true
					case *ast.BranchStmt:
						guarded = last.Tok == token.CONTINUE
					}
				}
				if !guarded {
					ok = false
				}
			}
		}
		return ok
	})
	return ok && found > 0
}

func persisterSections(repo string) string {
	p := parsePkg(filepath.Join(repo, "leveldb"))
	var sb strings.Builder
	facts := []struct {
		name string
		doc  string
		val  bool
	}{
		{"dbGetBatchReadsAtomic", "DB.Get reads IsRemoved and batch.Get inside ONE mutBatch critical section", batchReadsAtomicDeep(p, "DB", "Get")},
		{"dbHasBatchReadsAtomic", "DB.Has reads IsRemoved and batch.Get inside ONE mutBatch critical section", batchReadsAtomicDeep(p, "DB", "Has")},
		{"serialGetBatchReadsAtomic", "SerialDB.Get reads IsRemoved and batch.Get inside ONE mutBatch critical section", batchReadsAtomicDeep(p, "SerialDB", "Get")},
		{"serialHasBatchReadsAtomic", "SerialDB.Has reads IsRemoved and batch.Get inside ONE mutBatch critical section", batchReadsAtomicDeep(p, "SerialDB", "Has")},
		{"serialFlushHoldsLock", "SerialDB.putBatch holds mutBatch from the batch swap until the process loop has answered the write", serialFlushHoldsLock(p.funcs["SerialDB.putBatch"])},
		{"dbFlushHoldsLock", "DB.updateBatchWithIncrement holds mutBatch across putBatch and batch.Reset", dbFlushHoldsLock(p.funcs["DB.updateBatchWithIncrement"])},
		{"dbResetOnlyAfterSuccessfulWrite", "DB: the size-triggered and the timer-triggered flush reset the pending batch only after putBatch returned nil (a failed write keeps the batch for the next flush)", resetOnlyAfterSuccessfulWrite(p.funcs["DB.updateBatchWithIncrement"]) && resetOnlyAfterSuccessfulWrite(p.funcs["DB.batchTimeoutHandle"])},
	}
	for _, f := range facts {
		fmt.Fprintf(&sb, "/-- %s -/\ndef %s : Bool := %s\n", f.doc, f.name, leanBool(f.val))
	}
	sb.WriteString("\n")
	return sb.String()
}

// ---- C14: methods whose whole body is one critical section

// wholeBodyLocked: the first statement takes a lock (possibly after trivial guards that return) and a matching defer unlock follows,
// or the body is Lock(); …; Unlock() with the Unlock as the last statement before the return
func wholeBodyLocked(fd *ast.FuncDecl) bool {
	if fd == nil {
		return false
	}
	b := fd.Body.List
	// exactly ONE lock acquisition and ONE release at the top level of the body (a second Lock/RLock — e.g. a body split in
	// two phases — is not a single critical section), of matching kinds
	nLock, nUnlock, lockIdx, lockKind := 0, 0, -1, ""
	for i, st := range b {
		p := callPath(st)
		if len(p) < 2 {
			continue
		}
		last := p[len(p)-1]
		if p[0] != "defer" && (last == "Lock" || last == "RLock") {
			nLock++
			if lockIdx < 0 {
				lockIdx, lockKind = i, last
			}
		}
		if last == "Unlock" || last == "RUnlock" {
			nUnlock++
		}
	}
	// nested blocks must not touch the mutex either (early-return branches may release a non-deferred lock: allowed only
	// when immediately followed by a return)
	if nLock != 1 || nUnlock < 1 {
		return false
	}
	for i := 0; i < lockIdx; i++ {
		switch s := b[i].(type) {
		case *ast.IfStmt:
			for _, x := range s.Body.List {
				if _, ok := x.(*ast.ReturnStmt); !ok {
					return false
				}
			}
			// a guard evaluated before the lock may look at the arguments only: a call through the receiver (a lookup in the
			// cache, say) reads shared state outside the critical section
			recvName := ""
			if fd.Recv != nil && len(fd.Recv.List) > 0 && len(fd.Recv.List[0].Names) > 0 {
				recvName = fd.Recv.List[0].Names[0].Name
			}
			guardTouches := false
			for _, part := range []ast.Node{s.Init, s.Cond} {
				if part == nil || (reflect.ValueOf(part).Kind() == reflect.Ptr && reflect.ValueOf(part).IsNil()) {
					continue
				}
				ast.Inspect(part, func(x ast.Node) bool {
					if c, ok := x.(*ast.CallExpr); ok {
						if pp := selPath(c.Fun); len(pp) >= 2 && pp[0] == recvName {
							guardTouches = true
						}
					}
					return !guardTouches
				})
			}
			if guardTouches {
				return false
			}
		case *ast.AssignStmt, *ast.DeclStmt:
			// nothing that touches the receiver's state may run before the lock is taken
			recv := ""
			if fd.Recv != nil && len(fd.Recv.List) > 0 && len(fd.Recv.List[0].Names) > 0 {
				recv = fd.Recv.List[0].Names[0].Name
			}
			touches := false
			ast.Inspect(s, func(x ast.Node) bool {
				if c, ok := x.(*ast.CallExpr); ok {
					if pp := selPath(c.Fun); len(pp) >= 2 && pp[0] == recv {
						touches = true
					}
				}
				return !touches
			})
			if touches {
				return false
			}
		default:
			return false
		}
	}
	want := "Unlock"
	if lockKind == "RLock" {
		want = "RUnlock"
	}
	if lockIdx+1 < len(b) {
		q := callPath(b[lockIdx+1])
		if len(q) >= 3 && q[0] == "defer" && q[len(q)-1] == want {
			return nUnlock == 1
		}
	}
	// explicit release: the LAST non-return top-level statement, and the only top-level release
	if nUnlock != 1 {
		return false
	}
	for j := len(b) - 1; j > lockIdx; j-- {
		if _, ok := b[j].(*ast.ReturnStmt); ok {
			continue
		}
		q := callPath(b[j])
		return len(q) >= 2 && q[0] != "defer" && q[len(q)-1] == want
	}
	return false
}

func singleSections(repo string) string {
	type target struct{ dir, fn string }
	targets := []target{
		{"immunitycache", "immunityChunk.AddItem"}, {"immunitycache", "immunityChunk.RemoveItem"}, {"immunitycache", "immunityChunk.ImmunizeKeys"},
		{"immunitycache", "immunityChunk.GetItem"}, {"immunitycache", "immunityChunk.Count"}, {"immunitycache", "immunityChunk.NumBytes"},
		{"txcache", "txListForSender.AddTx"}, {"txcache", "txListForSender.removeTransactionsWithLowerOrEqualNonceReturnHashes"},
		{"txcache", "txListForSender.removeTransactionsWithHigherOrEqualNonce"}, {"txcache", "txListForSender.getTxs"}, {"txcache", "txListForSender.getTxsReversed"},
		{"txcache", "TxCache.RemoveTxByHash"},
		{"lrucache/capacity", "capacityLRU.AddSized"}, {"lrucache/capacity", "capacityLRU.AddSizedIfMissing"}, {"lrucache/capacity", "capacityLRU.AddSizedAndReturnEvicted"},
		{"lrucache/capacity", "capacityLRU.Get"}, {"lrucache/capacity", "capacityLRU.Remove"}, {"lrucache/capacity", "capacityLRU.Keys"},
		{"timecache", "timeCacheCore.upsert"}, {"timecache", "timeCacheCore.put"}, {"timecache", "timeCacheCore.hasOrAdd"}, {"timecache", "timeCacheCore.sweep"}, {"timecache", "timeCacheCore.has"},
		{"txcache/maps", "ConcurrentMap.Set"}, {"txcache/maps", "ConcurrentMap.SetIfAbsent"}, {"txcache/maps", "ConcurrentMap.Remove"},
	}
	cache := map[string]*pkgFuncs{}
	var sb strings.Builder
	sb.WriteString("/-- methods whose whole body is ONE critical section (lock taken first, released last / by defer): any concurrent\n    history of these components is a sequential one -/\n")
	sb.WriteString("def singleCriticalSection : List (String × Bool) := [")
	for i, t := range targets {
		p, ok := cache[t.dir]
		if !ok {
			p = parsePkg(filepath.Join(repo, t.dir))
			cache[t.dir] = p
		}
		v := false
		if t.dir == "txcache/maps" {
			v = chunkLocked(p.funcs[t.fn])
		} else {
			v = wholeBodyLocked(p.funcs[t.fn])
		}
		if i > 0 {
			sb.WriteString(", ")
		}
		fmt.Fprintf(&sb, "(%q, %s)", t.dir+":"+t.fn, leanBool(v))
	}
	sb.WriteString("]\n\n")
	return sb.String()
}

// addTxIndexUpdatesAtomic: in TxCache.AddTx both index updates (txByHash.addTx, txListBySender.addTxReturnEvicted) are top-level
// statements between mutTxOperation.Lock() and the next mutTxOperation.Unlock()
func addTxIndexUpdatesAtomic(fd *ast.FuncDecl) bool {
	if fd == nil {
		return false
	}
	b := fd.Body
	iLock := topIndex(b, 0, func(s ast.Stmt) bool { return isCall(s, "cache", "mutTxOperation", "Lock") })
	if iLock < 0 {
		return false
	}
	iUn := topIndex(b, iLock+1, func(s ast.Stmt) bool { return isCall(s, "cache", "mutTxOperation", "Unlock") })
	deferred := topIndex(b, iLock+1, func(s ast.Stmt) bool { return isCall(s, "defer", "cache", "mutTxOperation", "Unlock") })
	iHash := topIndex(b, iLock+1, func(s ast.Stmt) bool { return containsCall(s, "txByHash", "addTx") })
	iList := topIndex(b, iLock+1, func(s ast.Stmt) bool { return containsCall(s, "txListBySender", "addTxReturnEvicted") })
	if iHash < 0 || iList < 0 {
		return false
	}
	// no index update before the lock is taken
	if topIndex(b, 0, func(s ast.Stmt) bool {
		return containsCall(s, "txByHash", "addTx") || containsCall(s, "txListBySender", "addTxReturnEvicted")
	}) < iLock {
		return false
	}
	if deferred >= 0 && deferred < iHash && deferred < iList && iUn < 0 {
		return true
	}
	return iUn > iHash && iUn > iList
}

// evictionRemovalsLocked: in evictLeastLikelyToSelectTransactions every statement of the pass loop that removes from the senders'
// lists (removeTransactionsWithHigherOrEqualNonce) or from the hash index (RemoveTxsBulk) lies between a top-level
// `cache.mutTxOperation.Lock()` and the following `cache.mutTxOperation.Unlock()` of the loop body (F13)
func evictionRemovalsLocked(fd *ast.FuncDecl) bool {
	if fd == nil {
		return false
	}
	found := false
	ok := true
	ast.Inspect(fd.Body, func(n ast.Node) bool {
		fs, isFor := n.(*ast.ForStmt)
		if !isFor {
			return true
		}
		b := fs.Body
		removes := func(s ast.Stmt) bool {
			return containsCall(s, "txListBySender", "removeTransactionsWithHigherOrEqualNonce") || containsCall(s, "txByHash", "RemoveTxsBulk")
		}
		first := topIndex(b, 0, removes)
		if first < 0 {
			return true // not the pass loop (or an inner loop)
		}
		found = true
		iLock := topIndex(b, 0, func(s ast.Stmt) bool { return isCall(s, "cache", "mutTxOperation", "Lock") })
		if iLock < 0 || iLock > first {
			ok = false
			return false
		}
		iUn := topIndex(b, iLock+1, func(s ast.Stmt) bool { return isCall(s, "cache", "mutTxOperation", "Unlock") })
		if iUn < 0 {
			ok = false
			return false
		}
		for i := 0; i < len(b.List); i++ {
			if removes(b.List[i]) && (i < iLock || i > iUn) {
				ok = false
			}
		}
		// nothing between Lock and Unlock may leave the loop body early (the lock would stay held)
		for i := iLock + 1; i < iUn; i++ {
			ast.Inspect(b.List[i], func(m ast.Node) bool {
				switch x := m.(type) {
				case *ast.ReturnStmt:
					ok = false
				case *ast.BranchStmt:
					if x.Tok == token.BREAK || x.Tok == token.GOTO {
						// a `break` of an inner loop is fine only when it is inside a for/range nested in this statement
						inner := false
						ast.Inspect(b.List[i], func(q ast.Node) bool {
							switch q.(type) {
							case *ast.ForStmt, *ast.RangeStmt:
								if q.Pos() <= x.Pos() && x.End() <= q.End() {
									inner = true
								}
							}
							return true
						})
						if !inner {
							ok = false
						}
					}
				}
				return true
			})
		}
		return false
	})
	return found && ok
}

// callsNamed: all call expressions in n whose selector (or function) name is one of names
func callsNamed(n ast.Node, names ...string) []*ast.CallExpr {
	var out []*ast.CallExpr
	ast.Inspect(n, func(x ast.Node) bool {
		c, ok := x.(*ast.CallExpr)
		if !ok {
			return true
		}
		name := ""
		switch f := c.Fun.(type) {
		case *ast.SelectorExpr:
			name = f.Sel.Name
		case *ast.Ident:
			name = f.Name
		}
		for _, w := range names {
			if name == w {
				out = append(out, c)
			}
		}
		return true
	})
	return out
}

// countersPaired: the counter updates of a map wrapper happen iff the (atomic, chunk-locked) map operation reported a change:
// `x := m.<mapOp>(…)` (x the last defined variable) and every call to one of `counterOps` lies inside `if x { … }` or after a
// top-level `if !x { return … }`; no lookup of the map (`lookups`) precedes the operation (no check-then-act).
func countersPaired(fd *ast.FuncDecl, mapOp string, counterOps []string, lookups []string) bool {
	if fd == nil {
		return false
	}
	flag := ""
	opIdx := -1
	for i, st := range fd.Body.List {
		as, ok := st.(*ast.AssignStmt)
		if !ok || as.Tok != token.DEFINE || len(as.Rhs) != 1 || len(callsNamed(as.Rhs[0], mapOp)) != 1 {
			continue
		}
		if id, ok := as.Lhs[len(as.Lhs)-1].(*ast.Ident); ok {
			flag, opIdx = id.Name, i
			break
		}
	}
	if flag == "" {
		return false
	}
	for _, st := range fd.Body.List[:opIdx] {
		if len(callsNamed(st, lookups...)) > 0 {
			return false
		}
	}
	guardedFrom := -1 // index of a top-level `if !flag { return }`
	for i := opIdx + 1; i < len(fd.Body.List); i++ {
		st := fd.Body.List[i]
		if is, ok := st.(*ast.IfStmt); ok {
			if u, ok := is.Cond.(*ast.UnaryExpr); ok && u.Op == token.NOT {
				if id, ok := u.X.(*ast.Ident); ok && id.Name == flag && len(is.Body.List) > 0 {
					if _, ok := is.Body.List[len(is.Body.List)-1].(*ast.ReturnStmt); ok && guardedFrom < 0 {
						guardedFrom = i
					}
				}
			}
			if id, ok := is.Cond.(*ast.Ident); ok && id.Name == flag {
				continue // counter updates inside `if flag {…}` are fine
			}
		}
		if len(callsNamed(st, counterOps...)) > 0 && !(guardedFrom >= 0 && i > guardedFrom) {
			return false
		}
	}
	total := 0
	for _, st := range fd.Body.List {
		total += len(callsNamed(st, counterOps...))
	}
	return total > 0
}

// batchEffects: the top-level effects of leveldb's batch.Put / batch.Delete / batch.Reset, canonicalised and sorted. Lock/unlock
// calls, `return nil` and the nil→empty normalisation of Put are skipped; anything else (a condition, an early return, a
// copy, another call) appears as "other: <source>" and breaks the comparison with the model's effects.
func batchEffects(repo string) string {
	p := parsePkg(filepath.Join(repo, "leveldb"))
	src := func(n ast.Node) string {
		var sb strings.Builder
		_ = printer.Fprint(&sb, p.fset, n)
		return strings.Join(strings.Fields(sb.String()), " ")
	}
	canon := func(st ast.Stmt) string {
		t := src(st)
		switch {
		case strings.HasSuffix(t, "mutBatch.Lock()"), strings.HasSuffix(t, "mutBatch.Unlock()"), t == "return nil", t == "defer b.mutBatch.Unlock()":
			return ""
		case strings.HasPrefix(t, "verifPoint(\"") && strings.HasSuffix(t, "\")"):
			return "" // harness hook: an empty function unless built with tag verif (leveldb/verif_off.go)
		case t == "b.batch.Put(key, val)":
			return "ldb.put"
		case t == "b.batch.Delete(key)":
			return "ldb.del"
		case t == "b.batch.Reset()":
			return "ldb.reset"
		case t == "b.cachedData[string(key)] = val":
			return "cached.set"
		case t == "delete(b.cachedData, string(key))":
			return "cached.del"
		case t == "b.removedData[string(key)] = struct{}{}":
			return "removed.set"
		case t == "delete(b.removedData, string(key))":
			return "removed.del"
		case t == "b.cachedData = make(map[string][]byte)":
			return "cached.clear"
		case t == "b.removedData = make(map[string]struct{})":
			return "removed.clear"
		}
		if is, ok := st.(*ast.IfStmt); ok && src(is.Cond) == "val == nil" && len(is.Body.List) == 1 && is.Else == nil &&
			(src(is.Body.List[0]) == "val = make([]byte, 0)" || src(is.Body.List[0]) == "val = []byte{}") {
			return "" // nil is held as an empty non-nil value (F8)
		}
		return "other: " + t
	}
	var sb strings.Builder
	for _, fn := range []string{"Put", "Delete", "Reset"} {
		fd := p.funcs["batch."+fn]
		var eff []string
		if fd == nil {
			eff = []string{"absent"}
		} else {
			for _, st := range fd.Body.List {
				if c := canon(st); c != "" {
					eff = append(eff, c)
				}
			}
		}
		sort.Strings(eff)
		q := make([]string, len(eff))
		for i, e := range eff {
			q[i] = fmt.Sprintf("%q", e)
		}
		fmt.Fprintf(&sb, "/-- effects of `batch.%s` in leveldb/batch.go (sorted) -/\ndef batch%sEffects : List String := [%s]\n", fn, fn, strings.Join(q, ", "))
	}
	sb.WriteString("\n")
	return sb.String()
}

func moreSections(repo string) string {
	tx := parsePkg(filepath.Join(repo, "txcache"))
	su := parsePkg(filepath.Join(repo, "storageUnit"))
	ad := parsePkg(filepath.Join(repo, "storageCacherAdapter"))
	var sb strings.Builder
	facts := []struct {
		name string
		doc  string
		val  bool
	}{
		{"addTxIndexUpdatesAtomic", "TxCache.AddTx updates the hash index and the sender list inside ONE mutTxOperation critical section", addTxIndexUpdatesAtomic(tx.funcs["TxCache.AddTx"])},
		{"evictionRemovalsUnderTxOperationLock", "eviction removes from the senders' lists and from the hash index inside a mutTxOperation critical section (it cannot interleave with AddTx / RemoveTxByHash)", evictionRemovalsLocked(tx.funcs["TxCache.evictLeastLikelyToSelectTransactions"])},
		{"hashIndexCountersPaired", "txByHashMap.addTx / removeTx update CountTx and NumBytes iff the chunk-locked map operation (SetIfAbsent / Remove) reported a change, with no lookup before it",
			countersPaired(tx.funcs["txByHashMap.addTx"], "SetIfAbsent", []string{"Increment", "Add"}, []string{"getTx", "Get", "Has"}) &&
				countersPaired(tx.funcs["txByHashMap.removeTx"], "Remove", []string{"Decrement", "Subtract"}, []string{"getTx", "Get", "Has"})},
		{"senderCounterPaired", "txListBySenderMap.removeSender decrements CountSenders iff the map's Remove reported a removal",
			countersPaired(tx.funcs["txListBySenderMap.removeSender"], "Remove", []string{"Decrement"}, []string{"Get", "Has", "getListForSender"})},
		{"unitGetSingleSection", "storageUnit.Unit.Get (cache lookup, persister read, cache refill) is ONE critical section of the unit lock", wholeBodyLocked(su.funcs["Unit.Get"])},
		{"unitHasSingleSection", "storageUnit.Unit.Has (cache lookup, then persister lookup) is ONE critical section of the unit lock: it cannot observe the cache between Put's cache write and its rollback", wholeBodyLocked(su.funcs["Unit.Has"])},
		{"unitPutSingleSection", "storageUnit.Unit.Put (cache write, persister write, undo) is ONE critical section of the unit lock", wholeBodyLocked(su.funcs["Unit.Put"])},
		{"unitRemoveSingleSection", "storageUnit.Unit.Remove is ONE critical section of the unit lock", wholeBodyLocked(su.funcs["Unit.Remove"])},
		{"adapterPutSingleSection", "storageCacherAdapter.Put (memory-tier write + persisting the victims) is ONE critical section of the adapter lock", wholeBodyLocked(ad.funcs["storageCacherAdapter.Put"])},
	}
	for _, f := range facts {
		fmt.Fprintf(&sb, "/-- %s -/\ndef %s : Bool := %s\n", f.doc, f.name, leanBool(f.val))
	}
	sb.WriteString("\n")
	return sb.String()
}

// chunkLocked: `chunk := m.getChunk(key); chunk.mutex.Lock(); …; chunk.mutex.Unlock()` (Unlock last before return, or deferred)
func chunkLocked(fd *ast.FuncDecl) bool {
	if fd == nil {
		return false
	}
	b := fd.Body.List
	if len(b) < 3 {
		return false
	}
	if _, ok := b[0].(*ast.AssignStmt); !ok {
		return false
	}
	p := callPath(b[1])
	if len(p) < 2 || p[len(p)-1] != "Lock" {
		return false
	}
	q := callPath(b[2])
	if len(q) >= 3 && q[0] == "defer" && q[len(q)-1] == "Unlock" {
		return true
	}
	for j := len(b) - 1; j > 1; j-- {
		if _, ok := b[j].(*ast.ReturnStmt); ok {
			continue
		}
		q := callPath(b[j])
		return len(q) >= 2 && q[len(q)-1] == "Unlock"
	}
	return false
}

// ---- C14: lock order

// lockOrder walks every function of the listed packages, tracking the locks held lexically (Lock … Unlock / defer Unlock) and
// emits an edge A → B whenever B is acquired — directly, or inside a same-package method called by name — while A is held.
// Locks are named Type.field (field of the receiver) so that distinct instances of one type collapse (conservative).
func lockOrder(repo string) string {
	dirs := []string{"txcache", "immunitycache", "lrucache", "lrucache/capacity", "timecache", "leveldb", "fifocache", "storageUnit", "storageCacherAdapter"}
	edges := map[[2]string]bool{}
	for _, d := range dirs {
		p := parsePkg(filepath.Join(repo, d))
		// locks acquired directly by each function
		direct := map[string][]string{}
		for k, fd := range p.funcs {
			recv := ""
			if i := strings.IndexByte(k, '.'); i > 0 {
				recv = k[:i]
			}
			ast.Inspect(fd.Body, func(x ast.Node) bool {
				if c, ok := x.(*ast.CallExpr); ok {
					pp := selPath(c.Fun)
					if len(pp) >= 2 && (pp[len(pp)-1] == "Lock" || pp[len(pp)-1] == "RLock") {
						direct[k] = append(direct[k], lockName(d, recv, pp))
					}
				}
				return true
			})
		}
		// transitive: locks acquired by a function or anything it calls in the same package (by method name)
		byName := map[string][]string{}
		for k := range p.funcs {
			n := k
			if i := strings.IndexByte(k, '.'); i > 0 {
				n = k[i+1:]
			}
			byName[n] = append(byName[n], k)
		}
		// call resolution without type information: recv.m() → the receiver type's own method; otherwise a unique
		// method name in the package; otherwise the candidate whose receiver type name contains the variable name
		// (listForSender.AddTx → txListForSender.AddTx); otherwise unresolved (ignored)
		resolve := func(caller string, cp []string) []string {
			if len(cp) == 0 {
				return nil
			}
			name := cp[len(cp)-1]
			cands := byName[name]
			if len(cands) == 0 {
				return nil
			}
			callerRecv := ""
			if i := strings.IndexByte(caller, '.'); i > 0 {
				callerRecv = caller[:i]
			}
			if len(cp) == 2 {
				for _, c := range cands {
					if c == callerRecv+"."+name {
						return []string{c}
					}
				}
			}
			if len(cands) == 1 {
				return cands
			}
			if len(cp) >= 2 {
				v := strings.ToLower(cp[len(cp)-2])
				for _, c := range cands {
					if i := strings.IndexByte(c, '.'); i > 0 && len(v) > 2 && strings.Contains(strings.ToLower(c[:i]), v) {
						return []string{c}
					}
				}
			}
			return nil
		}
		var acquired func(k string, seen map[string]bool) []string
		acquired = func(k string, seen map[string]bool) []string {
			if seen[k] {
				return nil
			}
			seen[k] = true
			out := append([]string{}, direct[k]...)
			ast.Inspect(p.funcs[k].Body, func(x ast.Node) bool {
				if c, ok := x.(*ast.CallExpr); ok {
					pp := selPath(c.Fun)
					for _, callee := range resolve(k, pp) {
						out = append(out, acquired(callee, seen)...)
					}
				}
				return true
			})
			return out
		}
		for k, fd := range p.funcs {
			recv := ""
			if i := strings.IndexByte(k, '.'); i > 0 {
				recv = k[:i]
			}
			var held []string
			deferred := map[string]bool{}
			var walk func(stmts []ast.Stmt)
			walk = func(stmts []ast.Stmt) {
				for _, s := range stmts {
					pp := callPath(s)
					if len(pp) >= 2 && pp[0] != "defer" && (pp[len(pp)-1] == "Lock" || pp[len(pp)-1] == "RLock") {
						name := lockName(d, recv, pp)
						for _, h := range held {
							if h != name {
								edges[[2]string{h, name}] = true
							}
						}
						held = append(held, name)
						continue
					}
					if len(pp) >= 2 && pp[0] != "defer" && (pp[len(pp)-1] == "Unlock" || pp[len(pp)-1] == "RUnlock") {
						name := lockName(d, recv, pp)
						for i := len(held) - 1; i >= 0; i-- {
							if held[i] == name && !deferred[name] {
								held = append(held[:i], held[i+1:]...)
								break
							}
						}
						continue
					}
					if len(pp) >= 3 && pp[0] == "defer" && strings.HasSuffix(pp[len(pp)-1], "nlock") {
						deferred[lockName(d, recv, pp[1:])] = true
						continue
					}
					// calls made while holding locks
					if len(held) > 0 {
						ast.Inspect(s, func(x ast.Node) bool {
							if c, ok := x.(*ast.CallExpr); ok {
								cp := selPath(c.Fun)
								for _, callee := range resolve(k, cp) {
									if callee == k {
										continue
									}
									for _, b := range acquired(callee, map[string]bool{}) {
										for _, h := range held {
											if h != b {
												edges[[2]string{h, b}] = true
											}
										}
									}
								}
							}
							return true
						})
					}
					// nested blocks keep the held set
					switch x := s.(type) {
					case *ast.IfStmt:
						walk(x.Body.List)
						if e, ok := x.Else.(*ast.BlockStmt); ok {
							walk(e.List)
						}
					case *ast.ForStmt:
						walk(x.Body.List)
					case *ast.RangeStmt:
						walk(x.Body.List)
					case *ast.BlockStmt:
						walk(x.List)
					}
				}
			}
			walk(fd.Body.List)
		}
	}
	var es [][2]string
	for e := range edges {
		es = append(es, e)
	}
	sort.Slice(es, func(i, j int) bool {
		if es[i][0] != es[j][0] {
			return es[i][0] < es[j][0]
		}
		return es[i][1] < es[j][1]
	})
	var sb strings.Builder
	sb.WriteString("/-- lock-order edges \"held A while acquiring B\" (locks named package:Type.field) -/\n")
	sb.WriteString("def lockOrder : List (String × String) := [")
	for i, e := range es {
		if i > 0 {
			sb.WriteString(", ")
		}
		fmt.Fprintf(&sb, "(%q, %q)", e[0], e[1])
	}
	sb.WriteString("]\n")
	// the same graph over indices into the sorted list of lock names (cheap for the kernel)
	idx := map[string]int{}
	var names []string
	for _, e := range es {
		for _, n := range e {
			if _, ok := idx[n]; !ok {
				idx[n] = 0
				names = append(names, n)
			}
		}
	}
	sort.Strings(names)
	for i, n := range names {
		idx[n] = i
	}
	sb.WriteString("def lockNames : List String := [")
	for i, n := range names {
		if i > 0 {
			sb.WriteString(", ")
		}
		fmt.Fprintf(&sb, "%q", n)
	}
	sb.WriteString("]\ndef lockOrderIdx : List (Nat × Nat) := [")
	for i, e := range es {
		if i > 0 {
			sb.WriteString(", ")
		}
		fmt.Fprintf(&sb, "(%d, %d)", idx[e[0]], idx[e[1]])
	}
	sb.WriteString("]\n")
	return sb.String()
}

func lockName(dir, recv string, path []string) string {
	// path like [s mutBatch Lock] / [chunk mutex Lock] / [listForSender mutex RLock] / [tcc Lock]
	mid := path[:len(path)-1]
	field := mid[len(mid)-1]
	owner := recv
	if len(mid) >= 2 && mid[0] != "s" && mid[0] != "c" && mid[0] != "cache" && mid[0] != "tc" && mid[0] != "u" && mid[0] != "b" && mid[0] != "m" && mid[0] != "ic" && mid[0] != "tcc" {
		owner = mid[0] // a local variable of another type (chunk, listForSender, …)
	}
	if len(mid) == 1 {
		field = "(embedded)"
		owner = mid[0]
	}
	return dir + ":" + owner + "." + field
}
