#!/usr/bin/env python3
"""matrixmerge — merge partial results of tools/seedmatrix.py into seeded/MATRIX.json.
usage: tools/matrixmerge.py part1.json [part2.json …]
A later part overrides the per-check results of an earlier one for the same seed (a re-measurement after the harness was
strengthened); the detected_by / detected_with_failing_input_by summaries are recomputed from the merged per-check results."""
import json, sys, os
ROOT = os.path.dirname(os.path.dirname(os.path.abspath(__file__)))
path = os.path.join(ROOT, "seeded", "MATRIX.json")
M = json.load(open(path))
for part in sys.argv[1:]:
    for sid, e in json.load(open(part)).items():
        if sid not in M:
            M[sid] = e
            continue
        M[sid].setdefault("checks", {}).update(e.get("checks", {}))
        for k, v in e.items():
            if k != "checks":
                M[sid][k] = v
for sid, e in M.items():
    ch = e.get("checks", {})
    det = sorted(p for p, c in ch.items() if c.get("rc") not in (0, None) or c.get("violations"))
    withinput = sorted(p for p in det if any("no-failing-input-found" not in v for v in ch[p].get("violations", [])))
    e["detected_by"] = det
    e["detected_with_failing_input_by"] = withinput
json.dump(M, open(path, "w"), indent=1, sort_keys=True)
print(len(M), "seeds")
