module svh

go 1.20

require github.com/multiversx/mx-chain-storage-go v0.0.0

require github.com/multiversx/mx-chain-core-go v1.2.24 // indirect

replace github.com/multiversx/mx-chain-storage-go => /repo
