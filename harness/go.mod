module svh

go 1.20

require (
	github.com/anishathalye/porcupine v1.3.0
	github.com/multiversx/mx-chain-storage-go v0.0.0
	github.com/syndtr/goleveldb v1.0.1-0.20220721030215-126854af5e6d
)

require (
	github.com/golang/snappy v0.0.4 // indirect
	github.com/hashicorp/golang-lru v0.6.0 // indirect
	github.com/multiversx/concurrent-map v0.1.4 // indirect
)

require (
	github.com/denisbrodbeck/machineid v1.0.1 // indirect
	github.com/gogo/protobuf v1.3.2 // indirect
	github.com/golang/protobuf v1.5.2 // indirect
	github.com/mr-tron/base58 v1.2.0 // indirect
	github.com/multiversx/mx-chain-core-go v1.2.24
	github.com/multiversx/mx-chain-logger-go v1.0.15
	github.com/pelletier/go-toml v1.9.3 // indirect
	google.golang.org/protobuf v1.28.0 // indirect
)

replace github.com/multiversx/mx-chain-storage-go => /repo
