package main

import (
	"fmt"
	"math/rand"
	"runtime"
	"strconv"
	"strings"
	"sync"
	"time"

	"github.com/multiversx/mx-chain-storage-go/sharded"
)

// shard component: sharded/shardIDProvider.go (C19)
//
//	masks n         → "hi lo bytes"
//	maskseg a b     → run-length encoding of (hi,lo,bytes) over every n in [a,b] (exhaustive scan of the float code)
//	id n key        → ComputeId
//	onto n          → number of i<n hit by the big-endian key of i (bytesNeeded bytes)
type shardComp struct{}

func init() { register("shard", shardComp{}) }

// OpTimeout: single operations of this component are whole runs / scans
func (shardComp) OpTimeout() time.Duration { return 15 * time.Minute }

func (shardComp) Parallel() bool { return false }

func (shardComp) Gen(rng *rand.Rand, tier string) [][]string {
	var hs [][]string
	// exhaustive small scope: all n <= N, all 1- and 2-byte keys (quick: subset of n)
	maxN := 64
	if tier == "thorough" {
		maxN = 512
	}
	h := []string{"begin shard exhaustive-small"}
	for n := 2; n <= maxN; n++ {
		h = append(h, fmt.Sprintf("masks %d", n), fmt.Sprintf("onto %d", n))
		h = append(h, fmt.Sprintf("id %d -", n))
		step := 1
		if tier != "thorough" && n > 16 {
			step = 7
		}
		for k := 0; k < 256; k += step {
			h = append(h, fmt.Sprintf("id %d %02x", n, k))
		}
		for k := 0; k < 65536; k += step * 61 {
			h = append(h, fmt.Sprintf("id %d %04x", n, k))
		}
		if tier == "thorough" && n <= 40 {
			for k := 0; k < 65536; k++ {
				h = append(h, fmt.Sprintf("id %d %04x", n, k))
			}
		}
	}
	hs = append(hs, h)
	// masks over the whole domain, run-length encoded
	h = []string{"begin shard mask-segments"}
	if tier == "thorough" {
		h = append(h, "maskseg 2 2147483647")
	} else {
		h = append(h, "maskseg 2 4194304")
		for k := 23; k <= 31; k++ {
			p := int64(1) << uint(k)
			lo, hi := p-2048, p+2048
			if hi > 2147483647 {
				hi = 2147483647
			}
			h = append(h, fmt.Sprintf("maskseg %d %d", lo, hi))
		}
	}
	hs = append(hs, h)
	// random shard counts (boundary biased) with random keys of any length
	nh := 40
	if tier == "thorough" {
		nh = 400
	}
	for i := 0; i < nh; i++ {
		h = []string{"begin shard random"}
		for j := 0; j < 200; j++ {
			n := randShardCount(rng)
			h = append(h, fmt.Sprintf("masks %d", n))
			for q := 0; q < 6; q++ {
				kl := rng.Intn(8)
				key := make([]byte, kl)
				for x := range key {
					switch rng.Intn(4) {
					case 0:
						key[x] = 0xff
					case 1:
						key[x] = 0
					default:
						key[x] = byte(rng.Intn(256))
					}
				}
				h = append(h, fmt.Sprintf("id %d %s", n, hx(key)))
			}
			// witnesses for "every id is produced": the big-endian keys of the largest id, of the ids around the mask boundary and of
			// a random one
			sig := (bitLen(uint64(n-1))-1)/8 + 1
			half := int64(1) << uint(bitLen(uint64(n-1))-1)
			for _, id := range []int64{n - 1, half, half + 1, half - 1, rng.Int63n(n)} {
				if id < 0 || id >= n {
					continue
				}
				key := make([]byte, sig)
				for x, v := sig-1, id; x >= 0; x-- {
					key[x] = byte(v)
					v >>= 8
				}
				h = append(h, fmt.Sprintf("id %d %s", n, hx(key)))
			}
			if n <= 2000 && rng.Intn(4) == 0 {
				h = append(h, fmt.Sprintf("onto %d", n))
			}
		}
		hs = append(hs, h)
	}
	return hs
}

func randShardCount(rng *rand.Rand) int64 {
	switch rng.Intn(5) {
	case 0:
		return 2 + rng.Int63n(20)
	case 1:
		k := 1 + rng.Intn(31)
		p := int64(1) << uint(k)
		n := p + int64(rng.Intn(5)) - 2
		if n < 2 {
			n = 2
		}
		if n > 2147483647 {
			n = 2147483647
		}
		return n
	case 2:
		return 2 + rng.Int63n(70000)
	default:
		return 2 + rng.Int63n(2147483646)
	}
}

type shardRunner struct {
	violBuf
	tagBuf
}

func (shardComp) NewRunner(begin string) Runner { return &shardRunner{} }
func (r *shardRunner) Close()                   {}

type maskTriple struct {
	hi, lo uint32
	bn     int
}

func masksOf(n int64) maskTriple {
	sp, err := sharded.NewShardIDProvider(int32(n))
	if err != nil {
		panic(err)
	}
	h, l, b := sp.VerifMasks()
	return maskTriple{h, l, b}
}

func (r *shardRunner) Exec(line string) string {
	t := strings.Fields(line)
	switch t[0] {
	case "masks":
		n, _ := strconv.ParseInt(t[1], 10, 64)
		m := masksOf(n)
		return fmt.Sprintf("%d %d %d", m.hi, m.lo, m.bn)
	case "maskseg":
		a, _ := strconv.ParseInt(t[1], 10, 64)
		b, _ := strconv.ParseInt(t[2], 10, 64)
		r.tag("maskseg")
		return maskSegments(a, b)
	case "id":
		n, _ := strconv.ParseInt(t[1], 10, 64)
		key := unhx(t[2])
		sp, err := sharded.NewShardIDProvider(int32(n))
		if err != nil {
			return "err"
		}
		id := sp.ComputeId(key)
		// oracle C19: in range
		if int64(id) >= n {
			r.add("C19", "range", fmt.Sprintf("n=%d key=%s id=%d", n, hx(key), id))
		}
		// oracle C19: depends only on trailing bytes: any prefix before the last bytesNeeded bytes is irrelevant
		_, _, bn := sp.VerifMasks()
		_ = bn
		// determine the number of significant trailing bytes independently: floor(log2(n-1))/8+1 in integers
		sig := (bitLen(uint64(n-1))-1)/8 + 1
		if len(key) >= sig {
			suf := key[len(key)-sig:]
			alt := append([]byte{0xa5, 0x5a, 0xff}, suf...)
			if sp.ComputeId(alt) != id || sp.ComputeId(suf) != id {
				r.add("C19", "suffix-only", fmt.Sprintf("n=%d key=%s", n, hx(key)))
			}
			r.tag("id-long")
		} else {
			r.tag("id-short")
		}
		// oracle C19: every id is produced by some key. A key of exactly `sig` bytes whose big-endian value v is below n is the
		// obvious witness for v; when it does NOT produce v, look for any other witness (all keys of sig <= 3 bytes — conclusive
		// given that only the trailing bytes count; for 4 bytes the keys that agree with v on the bits below the mask width)
		if len(key) == sig {
			v := int64(0)
			for _, b := range key {
				v = v<<8 | int64(b)
			}
			if v < n && int64(id) != v {
				found := false
				probe := make([]byte, sig)
				try := func(x int64) bool {
					for i := sig - 1; i >= 0; i-- {
						probe[i] = byte(x)
						x >>= 8
					}
					return int64(sp.ComputeId(probe)) == v
				}
				if sig <= 3 {
					for x := int64(0); x < int64(1)<<(8*uint(sig)) && !found; x++ {
						found = try(x)
					}
				} else {
					bits := uint(bitLen(uint64(n - 1)))
					for j := int64(0); j < int64(1)<<(32-bits) && !found; j++ {
						found = try(v|j<<bits) || try(v|j<<(bits-1))
					}
				}
				if !found {
					r.add("C19", "onto", fmt.Sprintf("n=%d: id %d is produced by no key (its big-endian key %s gives %d; searched %s)", n, v, hx(key), id,
						map[bool]string{true: "every key of that length", false: "every key agreeing with it below the mask width"}[sig <= 3]))
				} else {
					r.tag("id-witness-elsewhere")
				}
			}
			r.tag("id-canonical")
		}
		// stability
		if sp.ComputeId(key) != id {
			r.add("C19", "stable", fmt.Sprintf("n=%d key=%s", n, hx(key)))
		}
		return strconv.FormatUint(uint64(id), 10)
	case "onto":
		n, _ := strconv.ParseInt(t[1], 10, 64)
		sp, _ := sharded.NewShardIDProvider(int32(n))
		sig := (bitLen(uint64(n-1))-1)/8 + 1
		cnt := 0
		for i := int64(0); i < n; i++ {
			key := make([]byte, sig)
			v := i
			for x := sig - 1; x >= 0; x-- {
				key[x] = byte(v)
				v >>= 8
			}
			if int64(sp.ComputeId(key)) == i {
				cnt++
			}
		}
		if int64(cnt) != n {
			r.add("C19", "onto", fmt.Sprintf("n=%d only %d ids produced by canonical keys", n, cnt))
		}
		r.tag("onto")
		return strconv.Itoa(cnt)
	}
	return "bad-op"
}

func bitLen(x uint64) int {
	n := 0
	for x != 0 {
		n++
		x >>= 1
	}
	return n
}

// maskSegments scans every n in [a,b] on the real (float) code and run-length encodes the result
func maskSegments(a, b int64) string {
	type seg struct {
		from, to int64
		m        maskTriple
	}
	workers := int64(runtime.NumCPU())
	chunk := (b - a + workers) / workers
	parts := make([][]seg, workers)
	var wg sync.WaitGroup
	for w := int64(0); w < workers; w++ {
		lo := a + w*chunk
		hi := lo + chunk - 1
		if hi > b {
			hi = b
		}
		if lo > hi {
			continue
		}
		wg.Add(1)
		go func(w, lo, hi int64) {
			defer wg.Done()
			var segs []seg
			cur := seg{lo, lo, masksOf(lo)}
			for n := lo + 1; n <= hi; n++ {
				m := masksOf(n)
				if m == cur.m {
					cur.to = n
				} else {
					segs = append(segs, cur)
					cur = seg{n, n, m}
				}
			}
			segs = append(segs, cur)
			parts[w] = segs
		}(w, lo, hi)
	}
	wg.Wait()
	var all []seg
	for _, p := range parts {
		for _, s := range p {
			if len(all) > 0 && all[len(all)-1].m == s.m && all[len(all)-1].to+1 == s.from {
				all[len(all)-1].to = s.to
			} else {
				all = append(all, s)
			}
		}
	}
	var sb strings.Builder
	for i, s := range all {
		if i > 0 {
			sb.WriteByte(' ')
		}
		fmt.Fprintf(&sb, "%d-%d:%d,%d,%d", s.from, s.to, s.m.hi, s.m.lo, s.m.bn)
	}
	return sb.String()
}
