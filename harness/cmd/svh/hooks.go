package main

import (
	"os"
	"runtime"
	"strconv"
	"strings"
	"sync"
	"sync/atomic"
	"time"

	"github.com/multiversx/mx-chain-storage-go/leveldb"
)

// One process-global dispatcher for the leveldb verifPoint hooks:
//   - timer gates make the timer-triggered flush of a persister deterministic: the timer goroutine parks before its
//     flush until the history's `tick` operation lets it through (histories that use ticks run in parallel, gates are
//     keyed by the persister's path);
//   - the concurrent-persister component installs its own function for everything else.
type timerGate struct {
	arrived chan struct{}
	release chan struct{}
	done    chan struct{}
	closed  chan struct{}
	once    sync.Once
	blind   atomic.Bool // the hook points were not reached in time once: do not wait that long again
	// window: when armed, the timer goroutine also parks BETWEEN its LevelDB write and the batch reset (DB only)
	armWindow atomic.Bool
	inWindow  chan struct{}
	leaveWin  chan struct{}
}

func newTimerGate() *timerGate {
	return &timerGate{arrived: make(chan struct{}), release: make(chan struct{}), done: make(chan struct{}), closed: make(chan struct{}),
		inWindow: make(chan struct{}), leaveWin: make(chan struct{})}
}

func (g *timerGate) close() { g.once.Do(func() { close(g.closed) }) }

var timerGates sync.Map      // path → *timerGate
var timerGoroutines sync.Map // goroutine id of a persister's timer goroutine → path (learnt at timer.beforeFlush)

func goroutineID() string {
	var buf [64]byte
	n := runtime.Stack(buf[:], false)
	f := strings.Fields(string(buf[:n]))
	if len(f) >= 2 {
		return f[1]
	}
	return ""
}

var concpHook atomic.Value // func(string)

func init() {
	leveldb.SetVerifHook(func(id string) {
		if strings.HasPrefix(id, "timer.") {
			i := strings.IndexByte(id, ':')
			v, ok := timerGates.Load(id[i+1:])
			if !ok {
				return
			}
			g := v.(*timerGate)
			if strings.HasPrefix(id, "timer.beforeFlush") {
				timerGoroutines.Store(goroutineID(), id[i+1:])
				select {
				case g.arrived <- struct{}{}:
				case <-g.closed:
					return
				}
				select {
				case <-g.release:
				case <-g.closed:
				}
			} else {
				select {
				case g.done <- struct{}{}:
				case <-g.closed:
				}
			}
			return
		}
		if id == "db.timer.betweenWriteAndReset" {
			if pth, ok := timerGoroutines.Load(goroutineID()); ok {
				if v, ok := timerGates.Load(pth.(string)); ok {
					g := v.(*timerGate)
					if g.armWindow.CompareAndSwap(true, false) {
						select {
						case g.inWindow <- struct{}{}:
							select {
							case <-g.leaveWin:
							case <-g.closed:
							}
						case <-g.closed:
						}
					}
				}
			}
		}
		if f, _ := concpHook.Load().(func(string)); f != nil {
			f(id)
		}
	})
}

func registerGate(path string) *timerGate {
	g := newTimerGate()
	if old, ok := timerGates.Load(path); ok {
		old.(*timerGate).close()
	}
	timerGates.Store(path, g)
	return g
}

func unregisterGate(path string) {
	if old, ok := timerGates.LoadAndDelete(path); ok {
		old.(*timerGate).close()
	}
}

// timerPatience: minimisation re-runs (SVH_TIMER_PATIENCE_MS set by ./check) must not wait the full patience at every tick of
// every candidate history when the hook points are not reached on the tree under test
func timerPatience(d time.Duration) time.Duration {
	if v := os.Getenv("SVH_TIMER_PATIENCE_MS"); v != "" {
		if n, err := strconv.Atoi(v); err == nil && n > 0 && time.Duration(n)*time.Millisecond < d {
			return time.Duration(n) * time.Millisecond
		}
	}
	return d
}

// letTimerFlushWithWindow lets one timer flush through like letTimerFlush, but parks the timer goroutine between its LevelDB
// write and the batch reset and runs `during` (which must not wait for the flush to end) while it is parked there.
// Returns false when the window was not reached (other persister kinds, restructured code): `during` was then NOT run.
// flushSlack: how long a timer flush that HAS started is given to reach its end (a synced LevelDB write on a machine whose
// disk is busy with other checks can take many seconds; giving up early would show the harness a half-done flush)
func flushSlack() time.Duration {
	if os.Getenv("SVH_TIMER_PATIENCE_MS") != "" {
		return 10 * time.Second // minimisation re-runs
	}
	return 90 * time.Second
}

func letTimerFlushWithWindow(g *timerGate, patience time.Duration, during func()) bool {
	patience = timerPatience(patience)
	if g.blind.Load() {
		return false
	}
	g.armWindow.Store(true)
	defer g.armWindow.Store(false)
	select {
	case <-g.arrived:
	case <-time.After(patience):
		g.blind.Store(true)
		return false
	}
	g.release <- struct{}{}
	reached := false
	select {
	case <-g.inWindow:
		reached = true
		during()
		g.leaveWin <- struct{}{}
	case <-g.done:
		return false
	case <-time.After(flushSlack()):
		return false
	}
	select {
	case <-g.done:
	case <-time.After(flushSlack()):
	}
	return reached
}

// letTimerFlush waits for the persister's timer to fire, lets exactly one timer flush through and waits for its end.
// It returns false when the hook points around the timer flush were not observed (code restructured, or the handler
// skipped its flush): that alone is NOT a violation — by then several BatchDelaySeconds periods have elapsed, so the
// handler has had its turn, and the state oracles (crash images at the boundary after the tick, read-backs) decide
// whether what had to be flushed was flushed.
func letTimerFlush(g *timerGate, patience time.Duration) bool {
	patience = timerPatience(patience)
	if g.blind.Load() {
		patience = 2500 * time.Millisecond
	}
	select {
	case <-g.arrived:
	case <-time.After(patience):
		g.blind.Store(true)
		return false
	}
	g.release <- struct{}{}
	select {
	case <-g.done:
	case <-time.After(flushSlack()):
		return false
	}
	return true
}
