package main

import (
	"strings"
	"sync"
	"sync/atomic"
	"time"

	"github.com/multiversx/mx-chain-storage-go/leveldb"
)

// One process-global dispatcher for the leveldb verifPoint hooks:
//   - timer gates make the timer-triggered flush of a persister deterministic: the timer goroutine parks before its
//     flush until the history's `tick` operation lets it through (histories that use ticks run in parallel, gates are
//     keyed by the persister's path);
//   - the concurrent-persister component installs its own function for everything else.
type timerGate struct {
	arrived chan struct{}
	release chan struct{}
	done    chan struct{}
	closed  chan struct{}
	once    sync.Once
	blind   atomic.Bool // the hook points were not reached in time once: do not wait that long again
}

func newTimerGate() *timerGate {
	return &timerGate{arrived: make(chan struct{}), release: make(chan struct{}), done: make(chan struct{}), closed: make(chan struct{})}
}

func (g *timerGate) close() { g.once.Do(func() { close(g.closed) }) }

var timerGates sync.Map // path → *timerGate
var concpHook atomic.Value // func(string)

func init() {
	leveldb.SetVerifHook(func(id string) {
		if strings.HasPrefix(id, "timer.") {
			i := strings.IndexByte(id, ':')
			v, ok := timerGates.Load(id[i+1:])
			if !ok {
				return
			}
			g := v.(*timerGate)
			if strings.HasPrefix(id, "timer.beforeFlush") {
				select {
				case g.arrived <- struct{}{}:
				case <-g.closed:
					return
				}
				select {
				case <-g.release:
				case <-g.closed:
				}
			} else {
				select {
				case g.done <- struct{}{}:
				case <-g.closed:
				}
			}
			return
		}
		if f, _ := concpHook.Load().(func(string)); f != nil {
			f(id)
		}
	})
}

func registerGate(path string) *timerGate {
	g := newTimerGate()
	if old, ok := timerGates.Load(path); ok {
		old.(*timerGate).close()
	}
	timerGates.Store(path, g)
	return g
}

func unregisterGate(path string) {
	if old, ok := timerGates.LoadAndDelete(path); ok {
		old.(*timerGate).close()
	}
}

// letTimerFlush waits for the persister's timer to fire, lets exactly one timer flush through and waits for its end.
// It returns false when the hook points around the timer flush were not observed (code restructured, or the handler
// skipped its flush): that alone is NOT a violation — by then several BatchDelaySeconds periods have elapsed, so the
// handler has had its turn, and the state oracles (crash images at the boundary after the tick, read-backs) decide
// whether what had to be flushed was flushed.
func letTimerFlush(g *timerGate, patience time.Duration) bool {
	if g.blind.Load() {
		patience = 2500 * time.Millisecond
	}
	select {
	case <-g.arrived:
	case <-time.After(patience):
		g.blind.Store(true)
		return false
	}
	g.release <- struct{}{}
	select {
	case <-g.done:
	case <-time.After(5 * time.Second):
		return false
	}
	return true
}
