// svh — correspondence harness: generates operation histories, executes them on the
// real implementation (in-process, public API + `verif` hooks) and evaluates the
// per-property oracles on the implementation's outputs.
//
//	svh gen   <component> -seed N -tier T -out DIR      → DIR/ops.txt
//	svh run   <component> -ops FILE -out DIR [-prop Cxx] → DIR/impl.out, DIR/report.json
//
// ops.txt: one operation per line; a history starts with a line "begin ...".
// impl.out: exactly one canonical line per operation line.
package main

import (
	"bufio"
	"bytes"
	"crypto/sha256"
	"encoding/hex"
	"encoding/json"
	"flag"
	"fmt"
	"math/rand"
	"os"
	"path/filepath"
	"runtime"
	"sort"
	"strconv"
	"strings"
	"sync"
	"sync/atomic"
	"time"

	logger "github.com/multiversx/mx-chain-logger-go"
)

// Violation is a failure of a property oracle on the implementation's outputs
type Violation struct {
	Property string `json:"property"`
	Clause   string `json:"clause"`
	Detail   string `json:"detail"`
	History  int    `json:"history"`
	Line     int    `json:"line"` // 0-based line inside the history
}

// Runner executes one history on the implementation
type Runner interface {
	// Exec runs one op line and returns the canonical output line
	Exec(line string) string
	// Violations returns oracle failures found so far (property, clause, detail) and clears them
	Violations() []Violation
	// Tags reports which interesting branches were hit
	Tags() map[string]int
	Close()
}

// Component is one modelled part of the repository
type Component interface {
	Gen(rng *rand.Rand, tier string) [][]string
	NewRunner(begin string) Runner
	// Parallel reports whether histories may run concurrently
	Parallel() bool
}

var registry = map[string]Component{}

func register(name string, c Component) { registry[name] = c }

type report struct {
	Component       string         `json:"component"`
	Histories       int            `json:"histories"`
	Ops             int            `json:"ops"`
	OpKinds         map[string]int `json:"op_kinds"`
	Tags            map[string]int `json:"tags"`
	DistinctOutputs int            `json:"distinct_outputs"`
	DistinctHist    int            `json:"distinct_histories"`
	Samples         []string       `json:"samples"`
	Violations      []Violation    `json:"violations"`
	Crashed         []string       `json:"crashed"`
	Hung            []string       `json:"hung"`
	HungHistories   []int          `json:"hung_histories"`
}

// LongOps is implemented by components whose single operations legitimately take long (whole stress runs, exhaustive scans)
type LongOps interface {
	OpTimeout() time.Duration
}

// opTimeout: an operation of the implementation that does not return within this time is reported as a hang (with the history
// so far as the failing input); the rest of the run is abandoned because the stuck goroutine cannot be stopped.
var opTimeout = 120 * time.Second
var hangSeen atomic.Bool

func main() {
	_ = logger.SetLogLevel("*:NONE")
	if len(os.Args) < 3 {
		fmt.Fprintln(os.Stderr, "usage: svh gen|run <component> flags")
		os.Exit(2)
	}
	mode, compName := os.Args[1], os.Args[2]
	fs := flag.NewFlagSet("svh", flag.ExitOnError)
	seed := fs.Int64("seed", 1, "seed")
	tier := fs.String("tier", "quick", "tier")
	out := fs.String("out", ".", "output dir")
	ops := fs.String("ops", "", "ops file (run)")
	_ = fs.Parse(os.Args[3:])
	comp, ok := registry[compName]
	if !ok {
		fmt.Fprintln(os.Stderr, "unknown component", compName)
		os.Exit(2)
	}
	_ = os.MkdirAll(*out, 0o755)
	switch mode {
	case "gen":
		rng := rand.New(rand.NewSource(*seed))
		hs := comp.Gen(rng, *tier)
		f, err := os.Create(filepath.Join(*out, "ops.txt"))
		must(err)
		w := bufio.NewWriterSize(f, 1<<20)
		for _, h := range hs {
			for _, l := range h {
				w.WriteString(l)
				w.WriteByte('\n')
			}
		}
		must(w.Flush())
		must(f.Close())
	case "run":
		hs := readHistories(*ops)
		runAll(compName, comp, hs, *out)
	default:
		fmt.Fprintln(os.Stderr, "unknown mode", mode)
		os.Exit(2)
	}
}

func must(err error) {
	if err != nil {
		fmt.Fprintln(os.Stderr, "svh:", err)
		os.Exit(3)
	}
}

func readHistories(path string) [][]string {
	f, err := os.Open(path)
	must(err)
	defer f.Close()
	sc := bufio.NewScanner(f)
	sc.Buffer(make([]byte, 1<<20), 1<<26)
	var hs [][]string
	for sc.Scan() {
		l := sc.Text()
		if strings.HasPrefix(l, "#") || strings.TrimSpace(l) == "" {
			continue
		}
		if strings.HasPrefix(l, "begin") || len(hs) == 0 {
			hs = append(hs, nil)
		}
		hs[len(hs)-1] = append(hs[len(hs)-1], l)
	}
	must(sc.Err())
	return hs
}

// Rewriter is implemented by runners that feed observations into the op lines the model consumes
type Rewriter interface {
	Rewrite(line string) string
}

// PostRewriter is implemented by runners whose op line is completed by observations made DURING the call (clock readings, cache content)
type PostRewriter interface {
	LastLine() string
}

type histResult struct {
	ops   []string
	out   []string
	viols []Violation
	tags  map[string]int
	crash string
	hang  string
	done  bool
}

func runHistory(comp Component, idx int, h []string) (res histResult) {
	res.out = make([]string, 0, len(h))
	res.tags = map[string]int{}
	defer func() {
		if r := recover(); r != nil {
			buf := make([]byte, 4096)
			n := runtime.Stack(buf, false)
			res.crash = fmt.Sprintf("history %d line %d: panic: %v\n%s", idx, len(res.out), r, buf[:n])
			for len(res.out) < len(h) {
				res.out = append(res.out, "PANIC")
			}
			for len(res.ops) < len(h) {
				res.ops = append(res.ops, h[len(res.ops)])
			}
		}
	}()
	r := comp.NewRunner(h[0])
	defer func() {
		if res.hang == "" { // Close of a stuck component may block for ever
			r.Close()
		}
	}()
	res.out = append(res.out, "ok")
	res.ops = append(res.ops, h[0])
	rw, _ := r.(Rewriter)
	for i := 1; i < len(h); i++ {
		line := h[i]
		if rw != nil {
			line = rw.Rewrite(line)
		}
		res.ops = append(res.ops, line)
		o, hung := execWithWatchdog(r, line)
		if hung {
			res.hang = fmt.Sprintf("history %d line %d: operation `%s` did not return within %s (endless loop or deadlock in the implementation)", idx, i, line, opTimeout)
			hangSeen.Store(true)
			res.out = append(res.out, "HANG")
			res.ops = res.ops[:len(res.out)]
			res.done = true
			return
		}
		if pr, ok := r.(PostRewriter); ok {
			if l := pr.LastLine(); l != "" {
				res.ops[len(res.ops)-1] = l
			}
		}
		res.out = append(res.out, o)
		if ks, ok := r.(KeyScribbler); ok {
			ks.ScribbleKeys()
		}
		for _, v := range r.Violations() {
			v.History = idx
			v.Line = i
			res.viols = append(res.viols, v)
		}
	}
	for k, v := range r.Tags() {
		res.tags[k] += v
	}
	res.done = true
	return
}

func execWithWatchdog(r Runner, line string) (string, bool) {
	type outcome struct {
		o string
		p interface{}
	}
	ch := make(chan outcome, 1)
	go func() {
		defer func() {
			if p := recover(); p != nil {
				ch <- outcome{p: p}
			}
		}()
		ch <- outcome{o: r.Exec(line)}
	}()
	t := time.NewTimer(opTimeout)
	defer t.Stop()
	select {
	case oc := <-ch:
		if oc.p != nil {
			panic(oc.p)
		}
		return oc.o, false
	case <-t.C:
		return "", true
	}
}

func runAll(name string, comp Component, hs [][]string, outDir string) {
	results := make([]histResult, len(hs))
	if lo, ok := comp.(LongOps); ok {
		opTimeout = lo.OpTimeout()
	}
	if v := os.Getenv("SVH_OP_TIMEOUT_S"); v != "" {
		var n int
		if _, err := fmt.Sscan(v, &n); err == nil && n > 0 {
			opTimeout = time.Duration(n) * time.Second
		}
	}
	workers := 1
	if comp.Parallel() {
		workers = runtime.NumCPU()
	}
	var wg sync.WaitGroup
	ch := make(chan int)
	for w := 0; w < workers; w++ {
		wg.Add(1)
		go func() {
			defer wg.Done()
			for i := range ch {
				if hangSeen.Load() {
					continue
				}
				results[i] = runHistory(comp, i, hs[i])
			}
		}()
	}
	for i := range hs {
		ch <- i
	}
	close(ch)
	wg.Wait()

	rep := report{Component: name, OpKinds: map[string]int{}, Tags: map[string]int{}, Violations: []Violation{}, Crashed: []string{}, Samples: []string{}, Hung: []string{}, HungHistories: []int{}}
	if hangSeen.Load() {
		// keep only the histories that were executed (completely, or up to the operation that hangs); renumber
		var keptH [][]string
		var keptR []histResult
		for i := range hs {
			if results[i].done {
				for k := range results[i].viols {
					results[i].viols[k].History = len(keptH)
				}
				keptH = append(keptH, hs[i])
				keptR = append(keptR, results[i])
			}
		}
		hs, results = keptH, keptR
	}
	f, err := os.Create(filepath.Join(outDir, "impl.out"))
	must(err)
	w := bufio.NewWriterSize(f, 1<<20)
	f2, err := os.Create(filepath.Join(outDir, "ops.run.txt"))
	must(err)
	w2 := bufio.NewWriterSize(f2, 1<<20)
	distinctOut := map[[8]byte]struct{}{}
	distinctHist := map[[8]byte]struct{}{}
	for i := range hs {
		h := results[i].ops
		rep.Histories++
		hh := sha256.New()
		for j, l := range h {
			w2.WriteString(l)
			w2.WriteByte('\n')
			rep.Ops++
			kind := l
			if k := strings.IndexByte(l, ' '); k >= 0 {
				kind = l[:k]
			}
			rep.OpKinds[kind]++
			o := results[i].out[j]
			w.WriteString(o)
			w.WriteByte('\n')
			s := sha256.Sum256([]byte(l + "|" + o))
			var k8 [8]byte
			copy(k8[:], s[:8])
			distinctOut[k8] = struct{}{}
			hh.Write([]byte(l))
			hh.Write([]byte{'\n'})
			hh.Write([]byte(o))
			hh.Write([]byte{'\n'})
		}
		var k8 [8]byte
		copy(k8[:], hh.Sum(nil)[:8])
		distinctHist[k8] = struct{}{}
		rep.Violations = append(rep.Violations, results[i].viols...)
		for k, v := range results[i].tags {
			rep.Tags[k] += v
		}
		if results[i].crash != "" {
			rep.Crashed = append(rep.Crashed, results[i].crash)
		}
		if results[i].hang != "" {
			rep.Hung = append(rep.Hung, results[i].hang)
			rep.HungHistories = append(rep.HungHistories, i)
		}
	}
	must(w.Flush())
	must(f.Close())
	must(w2.Flush())
	must(f2.Close())
	rep.DistinctOutputs = len(distinctOut)
	rep.DistinctHist = len(distinctHist)
	// samples: first history (truncated) and a middle one
	for _, i := range []int{0, len(hs) / 2} {
		if i < len(hs) {
			n := len(hs[i])
			if n > 12 {
				n = 12
			}
			if n > len(results[i].out) {
				n = len(results[i].out)
			}
			var sb strings.Builder
			for j := 0; j < n; j++ {
				sb.WriteString(hs[i][j] + " => " + results[i].out[j] + " ; ")
			}
			rep.Samples = append(rep.Samples, sb.String())
		}
	}
	sort.Slice(rep.Violations, func(a, b int) bool {
		if rep.Violations[a].History != rep.Violations[b].History {
			return rep.Violations[a].History < rep.Violations[b].History
		}
		return rep.Violations[a].Line < rep.Violations[b].Line
	})
	// keep the report small, but never let one clause crowd out another property's findings: the earliest 40 failures of every
	// (property, clause) pair are kept
	perClause := map[string]int{}
	kept := rep.Violations[:0]
	for _, v := range rep.Violations {
		k := v.Property + "/" + v.Clause
		if perClause[k] < 40 {
			perClause[k]++
			kept = append(kept, v)
		}
	}
	rep.Violations = kept
	b, _ := json.MarshalIndent(rep, "", " ")
	must(os.WriteFile(filepath.Join(outDir, "report.json"), b, 0o644))
	if hangSeen.Load() {
		os.Exit(0) // stuck goroutines cannot be joined
	}
}

// ---------- helpers shared by components ----------

// hx: canonical text of a byte string; long runs of one byte (the "large value" inputs) are written rep:<n>:<byte>
func hx(b []byte) string {
	if len(b) == 0 {
		return "-"
	}
	if len(b) >= 256 {
		same := true
		for _, x := range b {
			if x != b[0] {
				same = false
				break
			}
		}
		if same {
			return fmt.Sprintf("rep:%d:%02x", len(b), b[0])
		}
	}
	return hex.EncodeToString(b)
}

func unhx(s string) []byte {
	if s == "-" {
		return []byte{}
	}
	if strings.HasPrefix(s, "rep:") {
		p := strings.Split(s, ":")
		n, err := strconv.Atoi(p[1])
		x, err2 := hex.DecodeString(p[2])
		if len(p) != 3 || err != nil || err2 != nil || len(x) != 1 {
			panic("bad rep " + s)
		}
		return bytes.Repeat(x, n)
	}
	b, err := hex.DecodeString(s)
	if err != nil {
		panic("bad hex " + s)
	}
	return b
}

// takeKeys: what an enumeration handed out belongs to the caller — the caller's copy is kept, the slices received are
// overwritten at once (an implementation handing out views of its own key storage corrupts itself here)
func takeKeys(ks [][]byte) [][]byte {
	out := make([][]byte, len(ks))
	for i, k := range ks {
		out[i] = append([]byte{}, k...)
		for j := range k {
			k[j] ^= 0x5a
		}
	}
	return out
}

func b01(b bool) string {
	if b {
		return "1"
	}
	return "0"
}

func hexList(l [][]byte) string {
	if len(l) == 0 {
		return "[]"
	}
	s := make([]string, len(l))
	for i, x := range l {
		s[i] = hx(x)
	}
	return "[" + strings.Join(s, ",") + "]"
}

func sortedHexList(l [][]byte) string {
	c := make([][]byte, len(l))
	copy(c, l)
	sort.Slice(c, func(i, j int) bool { return string(c[i]) < string(c[j]) })
	return hexList(c)
}

// keyPen: callers of the library may reuse the buffers they pass as KEYS. Every key slice handed to the implementation during
// an operation is overwritten right after the operation (and its dump) has finished, so an implementation that keeps a
// reference to the caller's key memory instead of copying it misbehaves at the next operation.
type keyPen struct{ prev [][]byte }

func (p *keyPen) k(b []byte) []byte {
	p.prev = append(p.prev, b)
	return b
}

// ScribbleKeys is called by runHistory after every operation
func (p *keyPen) ScribbleKeys() {
	for _, b := range p.prev {
		for i := range b {
			b[i] ^= 0xa5
		}
	}
	p.prev = nil
}

// KeyScribbler is implemented by runners that embed keyPen
type KeyScribbler interface{ ScribbleKeys() }

type violBuf struct{ v []Violation }

func (b *violBuf) add(prop, clause, detail string) {
	b.v = append(b.v, Violation{Property: prop, Clause: clause, Detail: detail})
}
func (b *violBuf) Violations() []Violation { v := b.v; b.v = nil; return v }

type tagBuf struct{ t map[string]int }

func (b *tagBuf) tag(s string) {
	if b.t == nil {
		b.t = map[string]int{}
	}
	b.t[s]++
}
func (b *tagBuf) Tags() map[string]int { return b.t }
