package main

import (
	"bytes"
	"fmt"
	"math/big"
	"math/rand"
	"os"
	"runtime"
	"sort"
	"strconv"
	"strings"
	"sync"
	"sync/atomic"
	"time"

	"github.com/multiversx/mx-chain-core-go/data"
	"github.com/multiversx/mx-chain-core-go/data/transaction"
	"github.com/multiversx/mx-chain-storage-go/fifocache"
	"github.com/multiversx/mx-chain-storage-go/immunitycache"
	"github.com/multiversx/mx-chain-storage-go/lrucache"
	"github.com/multiversx/mx-chain-storage-go/lrucache/capacity"
	"github.com/multiversx/mx-chain-storage-go/memorydb"
	"github.com/multiversx/mx-chain-storage-go/storageCacherAdapter"
	"github.com/multiversx/mx-chain-storage-go/storageUnit"
	"github.com/multiversx/mx-chain-storage-go/testscommon"
	"github.com/multiversx/mx-chain-storage-go/timecache"
	"github.com/multiversx/mx-chain-storage-go/txcache"
	"github.com/multiversx/mx-chain-storage-go/txcache/maps"
	"github.com/multiversx/mx-chain-storage-go/types"
)

// conc14 component (C14): concurrent use of the mempool and the caches (run from a binary built with -race)
//
//	begin conc14
//	stress <target> <seed> <goroutines> <opsPerGoroutine> <gomaxprocs>
//
// targets: txpool (add/remove/select/evict), txadds (concurrent AddTx only: all present, ordered), immunity, lru, sizelru, fifo, timecache, cmap
// All lines are oracle-only (the model prints "-"): the Lean side of C14 is the lock-order / critical-section facts and
// the theorems they feed; this component exercises what no model can show: races, panics, runtime deadlocks.
type conc14Comp struct{}

func init() { register("conc14", conc14Comp{}) }

// OpTimeout: single operations of this component are whole runs / scans
func (conc14Comp) OpTimeout() time.Duration { return 15 * time.Minute }

func (conc14Comp) Parallel() bool { return false }

type conc14Runner struct {
	violBuf
	tagBuf
}

func (conc14Comp) NewRunner(begin string) Runner { return &conc14Runner{} }
func (r *conc14Runner) Close()                   { txcache.SetVerifHook(nil) }

// run workers with a watchdog; recovered panics are violations
func (r *conc14Runner) parallel(target string, n int, body func(w int, rng *rand.Rand), seed int64) bool {
	var wg sync.WaitGroup
	var panics int32
	var first atomic.Value
	for w := 0; w < n; w++ {
		wg.Add(1)
		go func(w int) {
			defer wg.Done()
			defer func() {
				if p := recover(); p != nil {
					atomic.AddInt32(&panics, 1)
					buf := make([]byte, 2048)
					m := runtime.Stack(buf, false)
					first.Store(fmt.Sprintf("%v\n%s", p, buf[:m]))
				}
			}()
			body(w, rand.New(rand.NewSource(seed*1009+int64(w))))
		}(w)
	}
	done := make(chan struct{})
	go func() { wg.Wait(); close(done) }()
	// minimisation re-runs of a failing history (SVH_TIMER_PATIENCE_MS is set for them) must not wait three minutes for every
	// candidate that still deadlocks
	limit := 180 * time.Second
	if os.Getenv("SVH_TIMER_PATIENCE_MS") != "" {
		limit = 25 * time.Second
	}
	select {
	case <-done:
	case <-time.After(limit):
		r.add("C14", "deadlock", fmt.Sprintf("%s seed=%d: workers did not finish within %v", target, seed, limit))
		return false
	}
	if panics > 0 {
		s, _ := first.Load().(string)
		r.add("C14", "panic", fmt.Sprintf("%s seed=%d: %d goroutine(s) panicked: %s", target, seed, panics, s))
		return false
	}
	return true
}

type c14Host struct{}

func (c14Host) ComputeTxFee(tx data.TransactionWithFeeHandler) *big.Int {
	runtime.Gosched()
	return new(big.Int).Mul(new(big.Int).SetUint64(tx.GetGasLimit()), new(big.Int).SetUint64(tx.GetGasPrice()))
}
func (c14Host) GetTransferredValue(tx data.TransactionHandler) *big.Int { return big.NewInt(1) }
func (c14Host) IsInterfaceNil() bool                                    { return false }

func (r *conc14Runner) stressTxPool(seed int64, nw, nops int, addsOnly bool) {
	var hookRng uint32
	txcache.SetVerifHook(func(id string) {
		if atomic.AddUint32(&hookRng, 2654435761)%3 == 0 {
			runtime.Gosched()
		}
		if atomic.LoadUint32(&hookRng)%97 == 0 {
			time.Sleep(20 * time.Microsecond)
		}
	})
	cfg := txcache.ConfigSourceMe{Name: "c14", NumChunks: 4, EvictionEnabled: !addsOnly, NumBytesThreshold: 4000, NumBytesPerSenderThreshold: 1_000_000,
		CountThreshold: 40, CountPerSenderThreshold: 1000, NumItemsToPreemptivelyEvict: 3}
	if addsOnly {
		// "in the absence of removals and eviction": no pool-wide eviction and no per-sender trimming either, whatever the
		// number of workers and insertions of the tier
		cfg.NumBytesThreshold = 1_000_000_000
		cfg.CountThreshold = 1_000_000
		cfg.CountPerSenderThreshold = 1_000_000
		cfg.NumBytesPerSenderThreshold = 33_554_432
	}
	host := &txHost{byPtr: map[data.TransactionWithFeeHandler]*txDef{}}
	var hostMu sync.Mutex
	_ = hostMu
	cache, err := txcache.NewTxCache(cfg, c14Host{})
	if err != nil {
		panic(err)
	}
	_ = host
	senders := [][]byte{{0xa0}, {0xa1}, {0xa2}, {0xa3}, {0xa4}}
	type added struct {
		hash, sender []byte
		nonce, price uint64
		size         int64
	}
	var addedMu sync.Mutex
	var all []added
	mk := func(w, i int, rng *rand.Rand) (*txcache.WrappedTransaction, added) {
		a := added{hash: []byte{byte(w), byte(i >> 8), byte(i)}, sender: senders[rng.Intn(len(senders))], nonce: uint64(rng.Intn(12)), price: uint64(1 + rng.Intn(3)), size: int64(10 + rng.Intn(90))}
		tx := &transaction.Transaction{SndAddr: a.sender, Nonce: a.nonce, GasPrice: a.price, GasLimit: uint64(1 + rng.Intn(50)), Value: big.NewInt(0)}
		return &txcache.WrappedTransaction{Tx: tx, TxHash: a.hash, Size: a.size}, a
	}
	ok := r.parallel("txpool", nw, func(w int, rng *rand.Rand) {
		for i := 0; i < nops; i++ {
			x := rng.Intn(100)
			if addsOnly {
				x = 0
			}
			switch {
			case x < 55:
				wtx, a := mk(w, i, rng)
				cache.AddTx(wtx)
				addedMu.Lock()
				all = append(all, a)
				addedMu.Unlock()
			case x < 70:
				addedMu.Lock()
				var h []byte
				if len(all) > 0 {
					h = all[rng.Intn(len(all))].hash
				}
				addedMu.Unlock()
				if h != nil {
					cache.RemoveTxByHash(h)
				}
			case x < 85:
				sess := &c14Session{}
				gas := uint64(rng.Intn(400))
				maxNum := rng.Intn(20)
				txs, acc := cache.SelectTransactions(sess, gas, maxNum, time.Second)
				r.checkSelection(txs, acc, gas, maxNum)
			case x < 92:
				cache.ForEachTransaction(func(h []byte, v *txcache.WrappedTransaction) {})
				_ = cache.Keys()
			case x < 94 && i%7 == 0:
				// Clear in the middle of everything else (also while an eviction is between its snapshot and its passes)
				cache.Clear()
			default:
				_ = cache.GetTransactionsPoolForSender(string(senders[rng.Intn(len(senders))]))
				_ = cache.NumBytes()
				_ = cache.CountSenders()
			}
		}
	}, seed)
	txcache.SetVerifHook(nil)
	if !ok {
		return
	}
	// quiescence: CountTx / NumBytes equal the number and total size of the transactions reachable by hash
	n, sum := uint64(0), int64(0)
	cache.ForEachTransaction(func(h []byte, v *txcache.WrappedTransaction) { n++; sum += v.Size })
	if cache.CountTx() != n || int64(cache.NumBytes()) != sum {
		r.add("C14", "quiescent-counters", fmt.Sprintf("txpool seed=%d: CountTx=%d NumBytes=%d but %d transactions totalling %d bytes are reachable by hash", seed, cache.CountTx(), cache.NumBytes(), n, sum))
	}
	// quiescence: every transaction reachable by hash is held by its sender's list (otherwise it can be neither selected nor
	// evicted, and the pool-wide bounds can never be restored)
	listed := map[string]bool{}
	for _, sn := range senders {
		for _, w := range cache.GetTransactionsPoolForSender(string(sn)) {
			listed[string(w.TxHash)] = true
		}
	}
	orphans := 0
	var firstOrphan []byte
	cache.ForEachTransaction(func(h []byte, v *txcache.WrappedTransaction) {
		if !listed[string(h)] {
			if orphans == 0 {
				firstOrphan = append([]byte{}, h...)
			}
			orphans++
		}
	})
	if orphans > 0 && !addsOnly {
		r.add("C14", "unevictable-after-concurrency", fmt.Sprintf("txpool seed=%d: %d transaction(s) reachable by hash (e.g. %s) are in no sender's list once all goroutines have finished: they can be neither selected nor evicted", seed, orphans, hx(firstOrphan)))
	}
	if !addsOnly {
		// eviction must still work after the concurrent phase: sequential insertions keep the pool within CountThreshold(+1)
		rng := rand.New(rand.NewSource(seed))
		for i := 0; i < 80; i++ {
			wtx, _ := mk(250, i, rng)
			cache.AddTx(wtx)
			if cache.CountTx() > uint64(cfg.CountThreshold)+1 {
				r.add("C14", "eviction-stuck-after-concurrency", fmt.Sprintf("txpool seed=%d: after the concurrent phase the pool holds %d transactions, CountThreshold %d (eviction no longer runs)", seed, cache.CountTx(), cfg.CountThreshold))
				break
			}
		}
	}
	if addsOnly {
		// every distinct transaction present, each list ordered
		seen := map[string]bool{}
		for _, a := range all {
			seen[string(a.hash)] = true
		}
		for _, a := range all {
			if !cache.Has(a.hash) {
				r.add("C14", "concurrent-add-lost", fmt.Sprintf("txadds seed=%d: transaction %s added concurrently is missing", seed, hx(a.hash)))
				break
			}
		}
		if int(cache.CountTx()) != len(seen) {
			r.add("C14", "concurrent-add-count", fmt.Sprintf("txadds seed=%d: CountTx=%d, %d distinct transactions were added", seed, cache.CountTx(), len(seen)))
		}
		total := 0
		for _, s := range senders {
			l := cache.GetTransactionsPoolForSender(string(s))
			total += len(l)
			for i := 1; i < len(l); i++ {
				a, b := l[i-1], l[i]
				less := a.Tx.GetNonce() < b.Tx.GetNonce() || (a.Tx.GetNonce() == b.Tx.GetNonce() && (a.Tx.GetGasPrice() > b.Tx.GetGasPrice() || (a.Tx.GetGasPrice() == b.Tx.GetGasPrice() && bytes.Compare(a.TxHash, b.TxHash) < 0)))
				if !less {
					r.add("C14", "concurrent-add-order", fmt.Sprintf("txadds seed=%d: sender %s list not ordered at %d", seed, hx(s), i))
					break
				}
			}
		}
		if total != len(seen) {
			r.add("C14", "concurrent-add-lists", fmt.Sprintf("txadds seed=%d: lists hold %d transactions, %d were added", seed, total, len(seen)))
		}
	}
}

type c14Session struct{}

func (s *c14Session) GetAccountState(a []byte) (*types.AccountState, error) {
	runtime.Gosched()
	return &types.AccountState{Nonce: 0, Balance: new(big.Int).Lsh(big.NewInt(1), 100)}, nil
}
func (s *c14Session) IsIncorrectlyGuarded(tx data.TransactionHandler) bool {
	runtime.Gosched()
	return false
}
func (s *c14Session) IsInterfaceNil() bool { return s == nil }

// C01/C02 on a concurrent selection
func (r *conc14Runner) checkSelection(txs []*txcache.WrappedTransaction, acc, gas uint64, maxNum int) {
	sum := uint64(0)
	last := map[string]uint64{}
	seen := map[string]bool{}
	for _, w := range txs {
		sum += w.Tx.GetGasLimit()
		s := string(w.Tx.GetSndAddr())
		n := w.Tx.GetNonce()
		if prev, ok := last[s]; ok {
			if n != prev+1 {
				r.add("C14", "concurrent-selection-nonces", fmt.Sprintf("sender %s: nonce %d after %d", hx([]byte(s)), n, prev))
			}
		} else if n != 0 {
			r.add("C14", "concurrent-selection-nonces", fmt.Sprintf("sender %s: first nonce %d, account nonce 0", hx([]byte(s)), n))
		}
		last[s] = n
		if seen[string(w.TxHash)] {
			r.add("C14", "concurrent-selection-duplicate", hx(w.TxHash))
		}
		seen[string(w.TxHash)] = true
	}
	if sum != acc || acc > gas || len(txs) > maxNum {
		r.add("C14", "concurrent-selection-budget", fmt.Sprintf("gas sum %d returned %d requested %d, %d txs maxNum %d", sum, acc, gas, len(txs), maxNum))
	}
}

// an item added WHILE its key is being immunized must end up immune (the chunk's ImmunizeKeys is one critical section)
func (r *conc14Runner) stressImmunizeRace(seed int64) {
	const nk = 16
	const fillers = 150000
	mk := func() *immunitycache.ImmunityCache {
		c, err := immunitycache.NewImmunityCache(immunitycache.CacheConfig{Name: "c14r", NumChunks: 1, MaxNumItems: 4_000_000, MaxNumBytes: 6000, NumItemsToPreemptivelyEvict: 20})
		if err != nil {
			panic(err)
		}
		return c
	}
	batchFor := func(round int, keys [][]byte) [][]byte {
		batch := make([][]byte, 0, fillers+nk)
		batch = append(batch, keys...)
		for i := 0; i < fillers; i++ {
			batch = append(batch, []byte{0xf1, byte(round), byte(i), byte(i >> 8), byte(i >> 16)})
		}
		return batch
	}
	// calibrate: how long does one such ImmunizeKeys call take here?
	t0 := time.Now()
	mk().ImmunizeKeys(batchFor(255, nil))
	total := time.Since(t0)
	for round := 0; round < 6; round++ {
		c := mk()
		keys := make([][]byte, nk)
		for i := range keys {
			keys[i] = []byte{0xab, byte(round), byte(i), byte(seed)}
		}
		batch := batchFor(round, keys)
		var wg sync.WaitGroup
		added := make([]bool, nk)
		wg.Add(1 + nk)
		started := make(chan struct{})
		go func() { defer wg.Done(); close(started); c.ImmunizeKeys(batch) }()
		// adders start at moments spread over the whole duration of the call: some land inside the chunk-level section
		for i := 0; i < nk; i++ {
			go func(i int) {
				defer wg.Done()
				<-started
				time.Sleep(total * time.Duration(i) / nk)
				_, added[i] = c.HasOrAdd(keys[i], []byte{byte(round), byte(i)}, 10)
			}(i)
		}
		wg.Wait()
		// pressure: fill the byte capacity several times over
		for i := 0; i < 300; i++ {
			c.HasOrAdd([]byte{0xcd, byte(round), byte(i), byte(i >> 8)}, []byte{0}, 100)
		}
		for i := 0; i < nk; i++ {
			if !added[i] {
				continue
			}
			if v, ok := c.Get(keys[i]); !ok || !bytes.Equal(v.([]byte), []byte{byte(round), byte(i)}) {
				r.add("C14", "immunized-item-lost", fmt.Sprintf("immunize-race seed=%d round %d: key %s was immunized and added concurrently, and was evicted afterwards", seed, round, hx(keys[i])))
				return
			}
		}
	}
}

// yieldCacher pauses inside Put (a callback of the unit): harmless while the unit holds its lock around it
type yieldCacher struct {
	types.Cacher
	n uint32
}

func (y *yieldCacher) Put(key []byte, value interface{}, size int) bool {
	if atomic.AddUint32(&y.n, 1)%2 == 0 {
		time.Sleep(30 * time.Microsecond)
	} else {
		runtime.Gosched()
	}
	return y.Cacher.Put(key, value, size)
}

func (r *conc14Runner) stressUnit(seed int64, nw, nops int) {
	inner, _ := lrucache.NewCache(2)
	cacher := &yieldCacher{Cacher: inner}
	db := &rejectingDB{DB: memorydb.New()}
	u, err := storageUnit.NewStorageUnit(cacher, db)
	if err != nil {
		panic(err)
	}
	keys := [][]byte{{1}, {2}, {3}}
	var servedUnacknowledged int32
	for round := 0; round < nops/2; round++ {
		if !r.parallel("unit", nw, func(w int, rng *rand.Rand) {
			for i := 0; i < 12; i++ {
				k := keys[rng.Intn(len(keys))]
				switch x := rng.Intn(10); {
				case x < 3:
					_ = u.Put(k, []byte{byte(w), byte(i)})
				case x < 4:
					// a write the persister rejects (after taking its time): never acknowledged, hence never to be seen
					_ = u.Put([]byte{0xff, byte(w)}, []byte{0xbd})
				case x < 5:
					if u.Has([]byte{0xff, byte(rng.Intn(nw))}) == nil {
						atomic.StoreInt32(&servedUnacknowledged, 1)
					}
					if v, err := u.Get([]byte{0xff, byte(rng.Intn(nw))}); err == nil && len(v) > 0 {
						atomic.StoreInt32(&servedUnacknowledged, 1)
					}
				case x < 8:
					_, _ = u.Get(k)
				case x < 9:
					_ = u.Remove(k)
				default:
					u.ClearCache()
				}
			}
		}, seed+int64(round)) {
			return
		}
		if atomic.LoadInt32(&servedUnacknowledged) == 1 {
			r.add("C14", "unit-served-unacknowledged-write", fmt.Sprintf("unit seed=%d: Has/Get reported a key whose every Put was rejected by the persister (a rejected write was visible while in flight)", seed))
			return
		}
		// quiescence: the cache must not hold anything the persister does not hold
		for _, k := range cacher.Keys() {
			v, ok := cacher.Peek(k)
			if !ok {
				continue
			}
			pv, err := db.Get(k)
			if err != nil || !bytes.Equal(pv, v.([]byte)) {
				r.add("C14", "unit-incoherent-after-concurrency", fmt.Sprintf("unit seed=%d: cache serves %s=%s, persister holds %s (err=%v)", seed, hx(k), hx(v.([]byte)), hx(pv), err))
				return
			}
		}
	}
}

// rejectingDB: a memory persister that refuses every key starting with 0xff — after yielding, so that the refusal is in flight
// for a while
type rejectingDB struct{ *memorydb.DB }

func (d *rejectingDB) Put(key, val []byte) error {
	if len(key) > 0 && key[0] == 0xff {
		for i := 0; i < 20; i++ {
			runtime.Gosched()
		}
		time.Sleep(30 * time.Microsecond)
		return fmt.Errorf("rejected by the persister")
	}
	return d.DB.Put(key, val)
}

// stressTimeRace: an Upsert of an expired, not yet swept key racing a Sweep over a large time cache (see the `sweeprace` step
// of the timecache component): whichever is served first, the key is present afterwards
func (r *conc14Runner) stressTimeRace(seed int64) {
	tc := timecache.NewTimeCache(time.Hour)
	rng := rand.New(rand.NewSource(seed))
	nfill := 20000 + rng.Intn(30000)
	fill := func() {
		for i := 0; i < nfill; i++ {
			_ = tc.AddWithSpan(fmt.Sprintf("\xfefill-%d", i), time.Nanosecond)
		}
	}
	fill()
	time.Sleep(20 * time.Microsecond)
	t0 := time.Now()
	tc.Sweep()
	walk := time.Since(t0)
	for tr := 0; tr < 8; tr++ {
		_ = tc.AddWithSpan("k", time.Nanosecond)
		fill()
		time.Sleep(20 * time.Microsecond)
		delay := walk * time.Duration(tr) / 8
		ok := r.parallel("timecache-race", 2, func(w int, _ *rand.Rand) {
			if w == 0 {
				tc.Sweep()
				return
			}
			for t1 := time.Now(); time.Since(t1) < delay; {
				runtime.Gosched()
			}
			_ = tc.Upsert("k", time.Hour)
		}, seed)
		if !ok {
			return
		}
		if !tc.Has("k") {
			r.add("C14", "timecache-upsert-lost-to-sweep", fmt.Sprintf("timecache-race seed=%d: key upserted with a span of 1h while a sweep was running is absent once both have returned (trial %d)", seed, tr))
			return
		}
	}
}

// RemoveTxByHash racing with the bulk removal AddTx performs (after unlocking) for a transaction trimmed by the
// per-sender limit: the hash must be un-counted exactly once
func (r *conc14Runner) stressTxRemoveRace(seed int64) {
	cfg := txcache.ConfigSourceMe{Name: "c14rm", NumChunks: 2, EvictionEnabled: false, NumBytesThreshold: 1_000_000_000, NumBytesPerSenderThreshold: 1_000_000,
		CountThreshold: 1_000_000, CountPerSenderThreshold: 1, NumItemsToPreemptivelyEvict: 1}
	cache, err := txcache.NewTxCache(cfg, c14Host{})
	if err != nil {
		panic(err)
	}
	// a few permanent residents keep the counters positive (a negative counter would be clamped to 0 by GetUint64)
	for i := 0; i < 50; i++ {
		cache.AddTx(&txcache.WrappedTransaction{Tx: &transaction.Transaction{SndAddr: []byte{0xc0, byte(i)}, Nonce: 0, GasPrice: 1, GasLimit: 1, Value: big.NewInt(0)}, TxHash: []byte{9, byte(i)}, Size: 1000})
	}
	// rendez-vous: the adder, right after releasing mutTxOperation (hook), and the remover leave the barrier together
	var phase int32
	txcache.SetVerifHook(func(id string) {
		if id == "txcache.addTx.afterUnlock" && atomic.LoadInt32(&phase) == 10 {
			atomic.StoreInt32(&phase, 1)
			for i := 0; i < 1_000_000 && atomic.LoadInt32(&phase) != 2; i++ {
			}
		}
	})
	defer txcache.SetVerifHook(nil)
	for round := 0; round < 6000; round++ {
		snd := []byte{0xb0, byte(round)}
		ha := []byte{1, byte(round >> 8), byte(round)}
		hb := []byte{2, byte(round >> 8), byte(round)}
		cache.AddTx(&txcache.WrappedTransaction{Tx: &transaction.Transaction{SndAddr: snd, Nonce: 1, GasPrice: 1, GasLimit: 1, Value: big.NewInt(0)}, TxHash: ha, Size: 10})
		var wg sync.WaitGroup
		wg.Add(2)
		atomic.StoreInt32(&phase, 10)
		go func() {
			defer wg.Done()
			cache.AddTx(&txcache.WrappedTransaction{Tx: &transaction.Transaction{SndAddr: snd, Nonce: 0, GasPrice: 1, GasLimit: 1, Value: big.NewInt(0)}, TxHash: hb, Size: 10})
		}()
		go func() {
			defer wg.Done()
			for i := 0; i < 50_000_000 && atomic.LoadInt32(&phase) != 1; i++ {
			}
			atomic.StoreInt32(&phase, 2) // the adder is about to bulk-remove the trimmed transaction: go
			cache.RemoveTxByHash(ha)
		}()
		wg.Wait()
		atomic.StoreInt32(&phase, 0)
		cache.RemoveTxByHash(hb)
	}
	n, sum := uint64(0), int64(0)
	cache.ForEachTransaction(func(h []byte, v *txcache.WrappedTransaction) { n++; sum += v.Size })
	if cache.CountTx() != n || int64(cache.NumBytes()) != sum {
		r.add("C14", "quiescent-counters", fmt.Sprintf("txremove-race seed=%d: CountTx=%d NumBytes=%d but %d transactions totalling %d bytes are reachable by hash", seed, cache.CountTx(), cache.NumBytes(), n, sum))
	}
}

func (r *conc14Runner) stressAdapter(seed int64, nw, nops int) {
	mem, _ := capacity.NewCapacityLRU(3, 1000)
	db := memorydb.New()
	a, err := storageCacherAdapter.NewStorageCacherAdapter(mem, db, serFactory{}, &testscommon.MarshalizerMock{})
	if err != nil {
		panic(err)
	}
	var done sync.Map // keys whose Put has returned
	var lost int32
	r.parallel("adapter", nw, func(w int, rng *rand.Rand) {
		for i := 0; i < nops; i++ {
			if w%2 == 0 {
				k := []byte{byte(w), byte(i >> 8), byte(i)}
				a.Put(k, &serVal{append([]byte{0xee}, k...)}, 10)
				done.Store(string(k), true)
			} else {
				// a reader: every key whose Put has returned must be reported
				done.Range(func(key, _ interface{}) bool {
					if rng.Intn(8) != 0 {
						return true
					}
					if !a.Has([]byte(key.(string))) {
						if atomic.CompareAndSwapInt32(&lost, 0, 1) {
							r.add("C14", "adapter-entry-in-neither-tier", fmt.Sprintf("adapter seed=%d: key %s (Put returned) not reported by Has during a concurrent Put", seed, hx([]byte(key.(string)))))
						}
						return false
					}
					return true
				})
			}
		}
	}, seed)
}

func (r *conc14Runner) stressImmunity(seed int64, nw, nops int) {
	// a limit that is NOT a multiple of the number of chunks: whatever the per-chunk shares are, together they must not exceed it
	const maxItems = 66
	c, err := immunitycache.NewImmunityCache(immunitycache.CacheConfig{Name: "c14", NumChunks: 4, MaxNumItems: maxItems, MaxNumBytes: 100000, NumItemsToPreemptivelyEvict: 8})
	if err != nil {
		panic(err)
	}
	// immune items inserted up front must survive everything
	var immune [][]byte
	for i := 0; i < 8; i++ {
		k := []byte{0xee, byte(i)}
		c.HasOrAdd(k, []byte{byte(i)}, 10)
		immune = append(immune, k)
	}
	c.ImmunizeKeys(immune)
	var over int32
	if !r.parallel("immunity", nw, func(w int, rng *rand.Rand) {
		for i := 0; i < nops; i++ {
			k := []byte{byte(w), byte(rng.Intn(64))}
			switch x := rng.Intn(100); {
			case x < 55:
				c.HasOrAdd(k, []byte{1}, rng.Intn(40))
			case x < 70:
				c.Remove(k)
			case x < 80:
				c.ImmunizeKeys([][]byte{k})
			case x < 90:
				_, _ = c.Get(k)
				_ = c.Keys()
			default:
				c.ForEachItem(func(key []byte, v interface{}) {})
				if c.Count() > maxItems {
					atomic.StoreInt32(&over, 1)
				}
			}
		}
	}, seed) {
		return
	}
	if c.Count() > maxItems || c.Len() > maxItems {
		over = 1
	}
	if over == 1 {
		r.add("C14", "immunity-over-capacity", fmt.Sprintf("immunity seed=%d", seed))
	}
	for i, k := range immune {
		v, ok := c.Get(k)
		if !ok || !bytes.Equal(v.([]byte), []byte{byte(i)}) {
			r.add("C14", "immunized-item-lost", fmt.Sprintf("immunity seed=%d key %s", seed, hx(k)))
		}
	}
}

// stressImmunityClear: iteration with a callback that yields (a caller's callback may take its time) against Clear, adds,
// removals and immunizations on a cache of several chunks: nothing may block for good, and the views agree at the end
func (r *conc14Runner) stressImmunityClear(seed int64, nw, nops int) {
	c, err := immunitycache.NewImmunityCache(immunitycache.CacheConfig{Name: "c14c", NumChunks: 4, MaxNumItems: 64, MaxNumBytes: 100000, NumItemsToPreemptivelyEvict: 8})
	if err != nil {
		panic(err)
	}
	for i := 0; i < 24; i++ {
		c.HasOrAdd([]byte{0xee, byte(i)}, []byte{byte(i)}, 10)
	}
	if !r.parallel("immunity-clear", nw, func(w int, rng *rand.Rand) {
		for i := 0; i < nops; i++ {
			k := []byte{byte(w), byte(rng.Intn(64))}
			switch x := rng.Intn(100); {
			case x < 45:
				c.HasOrAdd(k, []byte{1}, rng.Intn(40))
			case x < 55:
				c.Remove(k)
			case x < 62:
				c.ImmunizeKeys([][]byte{k})
			case x < 70:
				_, _ = c.Get(k)
				_ = c.Keys()
				_ = c.Len()
			case x < 90:
				n := 0
				c.ForEachItem(func(key []byte, v interface{}) {
					n++
					if n%3 == 0 {
						time.Sleep(20 * time.Microsecond)
					} else {
						runtime.Gosched()
					}
				})
			default:
				c.Clear()
			}
		}
	}, seed) {
		return
	}
	if c.Len() != len(c.Keys()) {
		r.add("C14", "immunity-views-disagree-after-concurrency", fmt.Sprintf("immunity-clear seed=%d: Len=%d, Keys=%d", seed, c.Len(), len(c.Keys())))
	}
}

type cacherLike interface {
	Put(key []byte, value interface{}, sizeInBytes int) bool
	HasOrAdd(key []byte, value interface{}, sizeInBytes int) (bool, bool)
	Get(key []byte) (interface{}, bool)
	Remove(key []byte)
	Keys() [][]byte
	Len() int
	Clear()
	RegisterHandler(func(key []byte, value interface{}), string)
	UnRegisterHandler(string)
}

func (r *conc14Runner) stressCacher(name string, c cacherLike, bound int, seed int64, nw, nops int) {
	var over int32
	var calls int64
	if !r.parallel(name, nw, func(w int, rng *rand.Rand) {
		for i := 0; i < nops; i++ {
			k := []byte{byte(rng.Intn(40)), 1}
			switch x := rng.Intn(100); {
			case x < 40:
				c.Put(k, []byte{byte(w)}, rng.Intn(30))
			case x < 55:
				c.HasOrAdd(k, []byte{byte(w)}, rng.Intn(30))
			case x < 70:
				_, _ = c.Get(k)
			case x < 80:
				c.Remove(k)
			case x < 90:
				_ = c.Keys()
				if bound > 0 && c.Len() > bound {
					atomic.StoreInt32(&over, 1)
				}
			case x < 95:
				id := strconv.Itoa(rng.Intn(3))
				c.RegisterHandler(func(key []byte, value interface{}) { atomic.AddInt64(&calls, 1) }, id)
			case x < 98:
				c.UnRegisterHandler(strconv.Itoa(rng.Intn(3)))
			default:
				c.Clear()
			}
		}
	}, seed) {
		return
	}
	if over == 1 {
		r.add("C14", "cache-over-capacity", fmt.Sprintf("%s seed=%d", name, seed))
	}
	time.Sleep(2 * time.Millisecond)
}

func (r *conc14Runner) stressTime(seed int64, nw, nops int) {
	tc := timecache.NewTimeCache(5 * time.Millisecond)
	r.parallel("timecache", nw, func(w int, rng *rand.Rand) {
		for i := 0; i < nops; i++ {
			k := strconv.Itoa(rng.Intn(30))
			switch x := rng.Intn(100); {
			case x < 30:
				_ = tc.Add(k)
			case x < 50:
				_ = tc.Upsert(k, time.Duration(rng.Intn(10))*time.Millisecond)
			case x < 70:
				tc.Sweep()
			case x < 90:
				_ = tc.Has(k)
			default:
				_ = tc.Len()
			}
		}
	}, seed)
}

func (r *conc14Runner) stressCmap(seed int64, nw, nops int) {
	m := maps.NewConcurrentMap(4)
	r.parallel("cmap", nw, func(w int, rng *rand.Rand) {
		for i := 0; i < nops; i++ {
			k := strconv.Itoa(rng.Intn(50))
			switch x := rng.Intn(100); {
			case x < 30:
				m.Set(k, w)
			case x < 45:
				m.SetIfAbsent(k, w)
			case x < 60:
				m.Remove(k)
			case x < 75:
				_, _ = m.Get(k)
			case x < 85:
				_ = m.Keys()
			case x < 95:
				m.IterCb(func(key string, v interface{}) {})
			default:
				m.Clear()
			}
		}
	}, seed)
}

func (r *conc14Runner) Exec(line string) string {
	t := strings.Fields(line)
	if t[0] != "stress" {
		return "bad-op"
	}
	seed, _ := strconv.ParseInt(t[2], 10, 64)
	nw, _ := strconv.Atoi(t[3])
	nops, _ := strconv.Atoi(t[4])
	procs, _ := strconv.Atoi(t[5])
	if strings.HasSuffix(t[1], "-race") || t[1] == "unit" || t[1] == "adapter" {
		procs = 8 // the targeted interleavings need real parallelism
	}
	old := runtime.GOMAXPROCS(procs)
	defer runtime.GOMAXPROCS(old)
	r.tag("stress:" + t[1])
	switch t[1] {
	case "txpool":
		r.stressTxPool(seed, nw, nops, false)
	case "txadds":
		r.stressTxPool(seed, nw, nops, true)
	case "immunity":
		r.stressImmunity(seed, nw, nops)
	case "immunity-clear":
		r.stressImmunityClear(seed, nw, nops)
	case "txremove-race":
		r.stressTxRemoveRace(seed)
	case "immunize-race":
		r.stressImmunizeRace(seed)
	case "unit":
		r.stressUnit(seed, nw, nops)
	case "adapter":
		r.stressAdapter(seed, nw, nops/4)
	case "lru":
		c, _ := lrucache.NewCache(16)
		r.stressCacher("lru", c, 16, seed, nw, nops)
	case "sizelru":
		c, _ := lrucache.NewCacheWithSizeInBytes(16, 200)
		r.stressCacher("sizelru", c, 16, seed, nw, nops)
	case "fifo":
		c, _ := fifocache.NewShardedCache(16, 4)
		r.stressCacher("fifo", c, 16, seed, nw, nops)
	case "timecache":
		r.stressTime(seed, nw, nops)
	case "timecache-race":
		r.stressTimeRace(seed)
	case "cmap":
		r.stressCmap(seed, nw, nops)
	}
	return "ran:" + t[1] + ":" + t[2] + ":" + t[5]
}

func (conc14Comp) Gen(rng *rand.Rand, tier string) [][]string {
	rounds, nops := 2, 300
	if tier == "thorough" {
		rounds, nops = 12, 1500
	}
	targets := []string{"txpool", "txadds", "txremove-race", "immunity", "immunity-clear", "immunize-race", "lru", "sizelru", "fifo", "timecache", "timecache-race", "cmap", "unit", "adapter"}
	var hs [][]string
	h := []string{"begin conc14"}
	for round := 0; round < rounds; round++ {
		for _, tg := range targets {
			procs := []int{1, 2, 4, 16}[(round+len(tg))%4]
			h = append(h, fmt.Sprintf("stress %s %d %d %d %d", tg, rng.Int63n(1<<30), 4+rng.Intn(5), nops, procs))
		}
	}
	hs = append(hs, h)
	sort.Strings(targets)
	return hs
}
