package main

import (
	"bytes"
	"fmt"
	"math/rand"
	"runtime"
	"sort"
	"strconv"
	"strings"
	"sync"
	"time"

	"github.com/multiversx/mx-chain-storage-go/lrucache"
	"github.com/multiversx/mx-chain-storage-go/types"
)

// lru component (C15): lrucache.NewCache (hashicorp LRU) and lrucache.NewCacheWithSizeInBytes (capacityLRU)
//
//	begin lru kind=plain|sized cap=.. bytes=..
//	put k v size | hoa k v size | get k | peek k | has k | rm k | clear | reg id | unreg id
type lruComp struct{}

func init() { register("lru", lruComp{}) }

func (lruComp) Parallel() bool { return true }

type refEntry struct {
	key  string
	val  []byte
	size int64
}

type lruRunner struct {
	keyPen
	violBuf
	tagBuf
	c        types.Cacher
	sized    bool
	cap      int
	maxBytes int64
	mu       sync.Mutex
	inv      []string
	handlers map[string]bool
	// reference LRU (C15 oracle), oldest first
	ref []refEntry
}

func (lruComp) NewRunner(begin string) Runner {
	kv := parseKV(strings.Fields(begin))
	r := &lruRunner{sized: kv["kind"] == "sized", cap: int(atou(kv["cap"])), maxBytes: int64(atou(kv["bytes"])), handlers: map[string]bool{}}
	var err error
	if r.sized {
		r.c, err = lrucache.NewCacheWithSizeInBytes(r.cap, r.maxBytes)
	} else {
		r.c, err = lrucache.NewCache(r.cap)
	}
	if err != nil {
		panic(err)
	}
	return r
}

func (r *lruRunner) Close() {}

func (r *lruRunner) dump() string {
	return fmt.Sprintf("keys=%s len=%d bytes=%d", hexList(takeKeys(r.c.Keys())), r.c.Len(), r.c.SizeInBytesContained())
}

// collect handler invocations of the last call: wait for `want` of them, then give stragglers a chance
func (r *lruRunner) collect(want int) string {
	deadline := time.Now().Add(10 * time.Second)
	for {
		r.mu.Lock()
		n := len(r.inv)
		r.mu.Unlock()
		if n >= want || time.Now().After(deadline) {
			break
		}
		runtime.Gosched()
	}
	for i := 0; i < 30; i++ {
		runtime.Gosched()
	}
	r.mu.Lock()
	got := append([]string{}, r.inv...)
	r.inv = nil
	r.mu.Unlock()
	sort.Strings(got)
	return "h=[" + strings.Join(got, ",") + "]"
}

func (r *lruRunner) refFind(k string) int {
	for i, e := range r.ref {
		if e.key == k {
			return i
		}
	}
	return -1
}

func (r *lruRunner) refBytes() int64 {
	s := int64(0)
	for _, e := range r.ref {
		s += e.size
	}
	return s
}

// reference eviction: drop least recently used while over item or byte capacity, never the most recent entry
func (r *lruRunner) refEvict() int {
	n := 0
	for len(r.ref) > 1 && (len(r.ref) > r.cap || (r.sized && r.refBytes() > r.maxBytes)) {
		r.ref = r.ref[1:]
		n++
	}
	return n
}

func (r *lruRunner) refTouch(i int) {
	e := r.ref[i]
	r.ref = append(append(append([]refEntry{}, r.ref[:i]...), r.ref[i+1:]...), e)
}

func (r *lruRunner) compareRef(where string) {
	keys := takeKeys(r.c.Keys())
	ok := len(keys) == len(r.ref)
	if ok {
		for i := range keys {
			if string(keys[i]) != r.ref[i].key {
				ok = false
			}
		}
	}
	if !ok {
		exp := make([][]byte, len(r.ref))
		for i, e := range r.ref {
			exp[i] = []byte(e.key)
		}
		r.add("C15", "keys-mismatch", fmt.Sprintf("%s: Keys=%s, reference LRU=%s", where, hexList(keys), hexList(exp)))
		// resync on the observed residents (order as observed)
		var nr []refEntry
		for _, k := range keys {
			if i := r.refFind(string(k)); i >= 0 {
				nr = append(nr, r.ref[i])
			} else {
				v, _ := r.c.Peek(k)
				b, _ := v.([]byte)
				nr = append(nr, refEntry{string(k), b, 0})
			}
		}
		r.ref = nr
		return
	}
	for _, e := range r.ref {
		v, ok := r.c.Peek([]byte(e.key))
		if !ok || !bytes.Equal(v.([]byte), e.val) {
			r.add("C15", "value-mismatch", fmt.Sprintf("%s: key %s", where, hx([]byte(e.key))))
		}
	}
	if r.c.Len() != len(r.ref) {
		r.add("C15", "len", where)
	}
	want := uint64(0)
	if r.sized {
		want = uint64(r.refBytes())
	}
	if r.c.SizeInBytesContained() != want {
		r.add("C15", "size-in-bytes", fmt.Sprintf("%s: SizeInBytesContained=%d, resident sizes sum to %d", where, r.c.SizeInBytesContained(), want))
	}
}

func (r *lruRunner) expectHandlers(got string, k, v []byte, inserted bool, where string) {
	var exp []string
	if inserted {
		for id := range r.handlers {
			exp = append(exp, id+":"+hx(k)+":"+hx(v))
		}
	}
	sort.Strings(exp)
	if got != "h=["+strings.Join(exp, ",")+"]" {
		r.add("C15", "handlers", fmt.Sprintf("%s: invocations %s, expected %v", where, got, exp))
	}
}

func (r *lruRunner) Exec(line string) string {
	t := strings.Fields(line)
	switch t[0] {
	case "put", "hoa":
		k, v := r.k(unhx(t[1])), unhx(t[2])
		sz, _ := strconv.ParseInt(t[3], 10, 64)
		where := "after " + t[0] + " " + hx(k)
		rejected := r.sized && sz < 0
		i := r.refFind(string(k))
		if t[0] == "put" {
			ev := r.c.Put(k, v, int(sz))
			h := r.collect(len(r.handlers))
			expEv := false
			if !rejected {
				if i >= 0 {
					r.refTouch(i)
					r.ref[len(r.ref)-1].val = v
					r.ref[len(r.ref)-1].size = sz
					r.tag("put-overwrite")
				} else {
					r.ref = append(r.ref, refEntry{string(k), v, sz})
					r.tag("put-new")
				}
				n := r.refEvict()
				expEv = n > 0
				if expEv {
					r.tag("evicting")
				}
				r.expectHandlers(h, k, v, true, where)
			} else {
				r.tag("negative-size")
			}
			if ev != expEv {
				r.add("C15", "evicted-flag", fmt.Sprintf("%s: Put returned evicted=%v, reference evicted=%v", where, ev, expEv))
			}
			r.compareRef(where)
			return b01(ev) + " | " + r.dump() + " | " + h
		}
		has, added := r.c.HasOrAdd(k, v, int(sz))
		want := 0
		if i < 0 && !rejected {
			want = len(r.handlers)
		}
		h := r.collect(want)
		if has != (i >= 0) {
			r.add("C15", "has-flag", fmt.Sprintf("%s: has=%v, resident before=%v", where, has, i >= 0))
		}
		inserted := i < 0 && !rejected
		if added != inserted {
			r.add("C15", "added-flag", fmt.Sprintf("%s: added=%v, but insertion happened=%v (size %d)", where, added, inserted, sz))
		}
		if inserted {
			r.ref = append(r.ref, refEntry{string(k), v, sz})
			if r.refEvict() > 0 {
				r.tag("evicting")
			}
			r.tag("hoa-new")
		} else if rejected {
			r.tag("negative-size")
		} else {
			r.tag("hoa-present")
		}
		r.expectHandlers(h, k, v, inserted, where)
		r.compareRef(where)
		return b01(has) + " " + b01(added) + " | " + r.dump() + " | " + h
	case "get":
		k := r.k(unhx(t[1]))
		v, ok := r.c.Get(k)
		i := r.refFind(string(k))
		if ok != (i >= 0) {
			r.add("C15", "get", "get "+hx(k))
		}
		if i >= 0 {
			r.refTouch(i)
		}
		r.compareRef("after get " + hx(k))
		if !ok {
			return "none | " + r.dump()
		}
		return "some:" + hx(v.([]byte)) + " | " + r.dump()
	case "peek":
		k := r.k(unhx(t[1]))
		v, ok := r.c.Peek(k)
		if ok != (r.refFind(string(k)) >= 0) {
			r.add("C15", "peek", "peek "+hx(k))
		}
		r.compareRef("after peek " + hx(k))
		if !ok {
			return "none | " + r.dump()
		}
		return "some:" + hx(v.([]byte)) + " | " + r.dump()
	case "has":
		k := r.k(unhx(t[1]))
		ok := r.c.Has(k)
		if ok != (r.refFind(string(k)) >= 0) {
			r.add("C15", "has", "has "+hx(k))
		}
		r.compareRef("after has " + hx(k))
		return b01(ok) + " | " + r.dump()
	case "rm":
		k := r.k(unhx(t[1]))
		r.c.Remove(k)
		if i := r.refFind(string(k)); i >= 0 {
			r.ref = append(append([]refEntry{}, r.ref[:i]...), r.ref[i+1:]...)
		}
		r.compareRef("after rm " + hx(k))
		return "| " + r.dump()
	case "clear":
		r.c.Clear()
		r.ref = nil
		r.compareRef("after clear")
		return "| " + r.dump()
	case "reg":
		id := t[1]
		r.c.RegisterHandler(func(key []byte, value interface{}) {
			b, _ := value.([]byte)
			r.mu.Lock()
			r.inv = append(r.inv, id+":"+hx(key)+":"+hx(b))
			r.mu.Unlock()
		}, id)
		r.handlers[id] = true
		return "ok"
	case "unreg":
		r.c.UnRegisterHandler(t[1])
		delete(r.handlers, t[1])
		return "ok"
	}
	return "bad-op"
}

func (lruComp) Gen(rng *rand.Rand, tier string) [][]string {
	nh, steps := 800, 60
	if tier == "thorough" {
		nh, steps = 5000, 100
	}
	var hs [][]string
	for i := 0; i < nh; i++ {
		sized := i%3 != 0
		cp := pick(rng, 1, 2, 3, 3, 4, 6)
		mb := pick(rng, 1, 10, 25, 60, 100000)
		kind := "plain"
		if sized {
			kind = "sized"
		}
		h := []string{fmt.Sprintf("begin lru kind=%s cap=%d bytes=%d", kind, cp, mb)}
		nkeys := 3 + rng.Intn(6)
		for s := 0; s < steps; s++ {
			k := []byte{byte(0x10 + rng.Intn(nkeys))}
			val := fmt.Sprintf("%02x%02x", s%256, rng.Intn(256))
			sz := pick(rng, 0, 1, 5, 10, 10, 20, 30, 61, 1000)
			if rng.Intn(15) == 0 {
				sz = -1 - rng.Intn(3)
			}
			switch x := rng.Intn(100); {
			case x < 35:
				h = append(h, fmt.Sprintf("put %s %s %d", hx(k), val, sz))
			case x < 55:
				h = append(h, fmt.Sprintf("hoa %s %s %d", hx(k), val, sz))
			case x < 68:
				h = append(h, "get "+hx(k))
			case x < 74:
				h = append(h, "peek "+hx(k))
			case x < 80:
				h = append(h, "has "+hx(k))
			case x < 88:
				h = append(h, "rm "+hx(k))
			case x < 90:
				h = append(h, "clear")
			case x < 96:
				h = append(h, fmt.Sprintf("reg h%d", rng.Intn(3)))
			default:
				h = append(h, fmt.Sprintf("unreg h%d", rng.Intn(3)))
			}
		}
		hs = append(hs, h)
	}
	if tier == "thorough" {
		// exhaustive: all histories of length 5 over 3 keys x {put sizes 0,1,cap,cap+1; hoa; get; rm}, sized cap=2 bytes=4
		var alphabet []string
		for _, k := range []string{"01", "02", "03"} {
			for _, sz := range []int{0, 2, 4, 5} {
				alphabet = append(alphabet, fmt.Sprintf("put %s aa %d", k, sz))
			}
			alphabet = append(alphabet, "hoa "+k+" bb 2", "get "+k, "rm "+k)
		}
		var rec func(prefix []string, depth int)
		rec = func(prefix []string, depth int) {
			if depth == 0 {
				hs = append(hs, append([]string{"begin lru kind=sized cap=2 bytes=4"}, prefix...))
				return
			}
			for _, a := range alphabet {
				rec(append(append([]string{}, prefix...), a), depth-1)
			}
		}
		rec(nil, 4)
	}
	return hs
}
