package main

import (
	"bytes"
	"fmt"
	"math/rand"
	"os"
	"path/filepath"
	"sort"
	"strings"
	"sync"
	"sync/atomic"
	"time"

	"github.com/multiversx/mx-chain-storage-go/leveldb"
	"github.com/multiversx/mx-chain-storage-go/memorydb"
	"github.com/multiversx/mx-chain-storage-go/sharded"
	"github.com/multiversx/mx-chain-storage-go/types"
)

// persist component (C08, C09, C19 sharded part): leveldb.DB, leveldb.SerialDB, memorydb.DB, sharded persister
//
//	begin persist kind=db|serial|mem shards=0|n batch=.. delay=.. keys=k1,k2,..
//	put k v (v: hex | - (empty, non-nil) | nil) | rm k | tick (wait for one timer flush) | reopen (Close + constructor) | range
//
// after every operation the harness reads Get/Has of every key of the alphabet (the dump).
type persistComp struct{}

func init() { register("persist", persistComp{}) }

func (persistComp) Parallel() bool { return true }

var persistDirCounter int64

func scratchBase() string {
	if st, err := os.Stat("/dev/shm"); err == nil && st.IsDir() {
		return "/dev/shm"
	}
	return os.TempDir()
}

type persistRunner struct {
	keyPen
	violBuf
	tagBuf
	kind    string
	shards  int
	batch   int
	delay   int
	keys    [][]byte
	dir     string
	p       types.Persister
	ref     map[string][]byte // C08/C09 oracle: the map of acknowledged writes
	flushed bool
	gates   []*timerGate
	paths   []string
}

type simpleCreator struct {
	kind         string
	batch, delay int
}

func (c *simpleCreator) CreateBasePersister(path string) (types.Persister, error) {
	return openPersister(c.kind, path, c.delay, c.batch)
}
func (c *simpleCreator) IsInterfaceNil() bool { return c == nil }

func openPersister(kind, path string, delay, batch int) (types.Persister, error) {
	switch kind {
	case "db":
		return leveldb.NewDB(path, delay, batch, 10)
	case "serial":
		return leveldb.NewSerialDB(path, delay, batch, 10)
	case "mem":
		return memorydb.New(), nil
	}
	return nil, fmt.Errorf("unknown kind %s", kind)
}

func (r *persistRunner) open() {
	var err error
	if r.delay == 1 && r.kind != "mem" {
		// deterministic timer flushes: park the timer goroutine(s) until a `tick`
		r.gates, r.paths = nil, nil
		if r.shards >= 2 {
			for i := 0; i < r.shards; i++ {
				r.paths = append(r.paths, fmt.Sprintf("%s/%d", r.dir, i))
			}
		} else {
			r.paths = []string{r.dir}
		}
		for _, p := range r.paths {
			r.gates = append(r.gates, registerGate(p))
		}
	}
	if r.shards >= 2 {
		idp, e := sharded.NewShardIDProvider(int32(r.shards))
		if e != nil {
			panic(e)
		}
		// the list of shard ids handed out belongs to the caller: writing into it must not change the provider
		ids := idp.GetShardIDs()
		for i := range ids {
			ids[i] = 0
		}
		r.p, err = sharded.NewShardedPersister(r.dir, &simpleCreator{r.kind, r.batch, r.delay}, idp)
	} else {
		r.p, err = openPersister(r.kind, r.dir, r.delay, r.batch)
	}
	if err != nil {
		panic(err)
	}
}

// add: on a SHARDED persister a failure of the single-map clauses (C08: reads = latest acknowledged write; C09: state and
// RangeKeys after close/reopen) is a failure of C19 as well ("a sharded persister behaves as a single map, RangeKeys visits the
// union of all shards")
func (r *persistRunner) add(prop, clause, detail string) {
	r.violBuf.add(prop, clause, detail)
	if r.shards >= 2 && (prop == "C08" || prop == "C09") {
		r.violBuf.add("C19", "sharded-"+clause, fmt.Sprintf("%d shards: %s", r.shards, detail))
	}
}

func (persistComp) NewRunner(begin string) Runner {
	kv := parseKV(strings.Fields(begin))
	r := &persistRunner{kind: kv["kind"], shards: int(atou(kv["shards"])), batch: int(atou(kv["batch"])), delay: int(atou(kv["delay"])), ref: map[string][]byte{}}
	for _, k := range strings.Split(kv["keys"], ",") {
		if k != "" {
			r.keys = append(r.keys, unhx(k))
		}
	}
	r.dir = filepath.Join(scratchBase(), fmt.Sprintf("svh-persist-%d-%d", os.Getpid(), atomic.AddInt64(&persistDirCounter, 1)))
	_ = os.RemoveAll(r.dir)
	r.open()
	return r
}

func (r *persistRunner) Close() {
	for _, p := range r.paths {
		unregisterGate(p)
	}
	if r.p != nil {
		_ = r.p.Close()
	}
	_ = os.RemoveAll(r.dir)
}

func (r *persistRunner) dump(where string) string {
	parts := make([]string, len(r.keys))
	for i, k := range r.keys {
		v, err := r.p.Get(k)
		herr := r.p.Has(k)
		s := "!"
		if err == nil {
			s = hx(v)
		}
		if (err == nil) != (herr == nil) {
			r.add("C08", "has-vs-get", fmt.Sprintf("%s: key %s Get err=%v Has err=%v", where, hx(k), err, herr))
		}
		want, ok := r.ref[string(k)]
		if ok != (herr == nil) {
			// Has is a read like Get: it answers from the same logical map (a key whose extensions are stored is still absent)
			prop, clause := "C08", "has-wrong"
			if strings.HasPrefix(where, "after reopen") {
				prop, clause = "C09", "reopen-state"
			}
			r.add(prop, clause, fmt.Sprintf("%s: Has(%s) err=%v, acknowledged map holds it: %v", where, hx(k), herr, ok))
		}
		if ok != (err == nil) || (ok && !bytes.Equal(want, v)) {
			prop, clause := "C08", "stale-or-missing-read"
			if strings.HasPrefix(where, "after reopen") {
				prop, clause = "C09", "reopen-state"
			}
			ws := "!"
			if ok {
				ws = hx(want)
			}
			r.add(prop, clause, fmt.Sprintf("%s: key %s reads %s, latest acknowledged write is %s", where, hx(k), s, ws))
		}
		parts[i] = hx(k) + "=" + s
	}
	return strings.Join(parts, ",")
}

func (r *persistRunner) rangeAll() map[string][]byte {
	m := map[string][]byte{}
	dup := false
	r.p.RangeKeys(func(k, v []byte) bool {
		if _, ok := m[string(k)]; ok {
			dup = true
		}
		m[string(k)] = v
		return true
	})
	if dup {
		r.add("C09", "range-duplicate", "RangeKeys visited a key twice")
	}
	return m
}

func (r *persistRunner) Exec(line string) string {
	t := strings.Fields(line)
	switch t[0] {
	case "put":
		k := r.k(unhx(t[1]))
		var v []byte
		switch t[2] {
		case "nil":
			v = nil
			r.tag("put-nil")
		case "-":
			v = []byte{}
			r.tag("put-empty")
		default:
			v = unhx(t[2])
		}
		if err := r.p.Put(k, v); err != nil {
			return "err:" + err.Error()
		}
		cp := make([]byte, len(v))
		copy(cp, v)
		r.ref[string(k)] = cp
		r.tag("put")
		return r.dump("after put " + hx(k))
	case "rm":
		k := r.k(unhx(t[1]))
		if err := r.p.Remove(k); err != nil {
			return "err:" + err.Error()
		}
		delete(r.ref, string(k))
		r.tag("rm")
		return r.dump("after rm " + hx(k))
	case "tickput":
		// a Put issued WHILE the timer flush of leveldb.DB sits between its LevelDB write and the batch reset: the put must
		// neither be lost nor resurrect anything — the outcome is that of `tick` followed by `put` (a flush does not change
		// the logical map). On the unchanged code the Put blocks on the batch mutex until the flush has finished.
		k := r.k(unhx(t[1]))
		var v []byte
		if t[2] != "-" && t[2] != "nil" {
			v = unhx(t[2])
		} else if t[2] == "-" {
			v = []byte{}
		}
		done := make(chan error, 1)
		reached := false
		if len(r.gates) == 1 {
			reached = letTimerFlushWithWindow(r.gates[0], 30*time.Second, func() {
				go func() { done <- r.p.Put(k, v) }()
				time.Sleep(60 * time.Millisecond)
			})
		}
		var err error
		if reached {
			select {
			case err = <-done:
			case <-time.After(flushSlack()):
				return "err:put-during-timer-flush-never-returned"
			}
			r.tag("put-in-timer-window")
		} else {
			r.tag("timer-window-not-reached")
			err = r.p.Put(k, v)
		}
		if err != nil {
			return "err:" + err.Error()
		}
		cp := make([]byte, len(v))
		copy(cp, v)
		r.ref[string(k)] = cp
		return r.dump("after put-during-timer-flush " + hx(k))
	case "tick":
		// let exactly one timer flush through on every underlying persister
		var wg sync.WaitGroup
		var unobserved int32
		for _, g := range r.gates {
			wg.Add(1)
			go func(g *timerGate) {
				defer wg.Done()
				if !letTimerFlush(g, 30*time.Second) {
					atomic.AddInt32(&unobserved, 1)
				}
			}(g)
		}
		wg.Wait()
		if unobserved > 0 {
			r.tag("tick-unobserved")
		}
		r.tag("tick")
		return r.dump("after tick")
	case "reopen":
		for _, p := range r.paths {
			unregisterGate(p)
		}
		if err := r.p.Close(); err != nil {
			return "err-close:" + err.Error()
		}
		r.open()
		r.tag("reopen")
		// C09: RangeKeys after reopen = exactly the acknowledged map. Asked FIRST, before any key is read: a freshly opened
		// persister must enumerate everything without having been "warmed up" by Get/Has calls
		got := r.rangeAll()
		out := r.dump("after reopen")
		if len(got) != len(r.ref) {
			r.add("C09", "range-after-reopen", fmt.Sprintf("RangeKeys visits %d keys, acknowledged map holds %d", len(got), len(r.ref)))
		}
		for k, v := range r.ref {
			if g, ok := got[k]; !ok || !bytes.Equal(g, v) {
				r.add("C09", "range-after-reopen", "key "+hx([]byte(k)))
			}
		}
		return out
	case "destroy":
		// Close, DestroyClosed, then a new persister at the same path: nothing of the old content may be left (on a sharded
		// persister: in none of the shards)
		for _, p := range r.paths {
			unregisterGate(p)
		}
		if err := r.p.Close(); err != nil {
			return "err-close:" + err.Error()
		}
		if err := r.p.DestroyClosed(); err != nil {
			return "err-destroy:" + err.Error()
		}
		r.ref = map[string][]byte{}
		r.open()
		r.tag("destroy")
		got := r.rangeAll()
		if len(got) != 0 {
			r.add("C09", "content-after-destroy", fmt.Sprintf("RangeKeys visits %d keys of a persister re-created after Close + DestroyClosed", len(got)))
		}
		return r.dump("after destroy")
	case "range":
		got := r.rangeAll()
		ks := make([]string, 0, len(got))
		for k := range got {
			ks = append(ks, k)
		}
		sort.Strings(ks)
		parts := make([]string, len(ks))
		for i, k := range ks {
			parts[i] = hx([]byte(k)) + "=" + hx(got[k])
		}
		r.tag("range")
		if r.kind == "mem" || r.batch == 1 {
			// write-through configurations: everything acknowledged is flushed, so RangeKeys on the OPEN persister visits exactly
			// the acknowledged map (C09, last sentence; on a sharded persister: the union of all shards, C19)
			if len(got) != len(r.ref) {
				r.add("C09", "range-open", fmt.Sprintf("RangeKeys visits %d keys, the flushed map holds %d", len(got), len(r.ref)))
			}
			for k, v := range r.ref {
				if g, ok := got[k]; !ok || !bytes.Equal(g, v) {
					r.add("C09", "range-open", "key "+hx([]byte(k))+" is flushed but not visited (or visited with another value)")
				}
			}
		}
		return "[" + strings.Join(parts, ",") + "]"
	}
	return "bad-op"
}

func (persistComp) Gen(rng *rand.Rand, tier string) [][]string {
	nh, steps, nTick := 60, 40, 6
	if tier == "thorough" {
		nh, steps, nTick = 600, 80, 60
	}
	var hs [][]string
	// directed: many keys (enumeration after a reopen must visit every one of them exactly once, however the engine pages
	// through its files); only three of them are read back after every operation
	nBig := 300
	if tier == "thorough" {
		nBig = 1100
	}
	for d, kind := range []string{"db", "serial", "db"} {
		shards := []int{0, 0, 3}[d]
		h := []string{fmt.Sprintf("begin persist kind=%s shards=%d batch=%d delay=3600 keys=1000,%04x,%04x", kind, shards, pick(rng, 7, 64, 1000), 0x1000+nBig/2, 0x1000+nBig-1)}
		for i := 0; i < nBig; i++ {
			h = append(h, fmt.Sprintf("put %04x %02x%02x", 0x1000+i, i%251, d))
		}
		h = append(h, "reopen", "range")
		for i := 0; i < nBig; i += 97 {
			h = append(h, fmt.Sprintf("rm %04x", 0x1000+i))
		}
		h = append(h, fmt.Sprintf("put %04x ffff", 0x1000+nBig), "reopen", "range")
		hs = append(hs, h)
	}
	// directed: writes issued while a timer flush of leveldb.DB is between its LevelDB write and the batch reset
	nDirected := 2
	if tier == "thorough" {
		nDirected = 12
	}
	for d := 0; d < nDirected; d++ {
		batch := pick(rng, 2, 3, 5, 100)
		h := []string{fmt.Sprintf("begin persist kind=db shards=0 batch=%d delay=1 keys=a1,a2,a3", batch)}
		for round := 0; round < 3; round++ {
			for s := 0; s < 1+rng.Intn(3); s++ {
				k := pick(rng, "a1", "a2", "a3")
				if rng.Intn(4) == 0 {
					h = append(h, "rm "+k)
				} else {
					h = append(h, fmt.Sprintf("put %s %02x", k, rng.Intn(256)))
				}
			}
			h = append(h, fmt.Sprintf("tickput %s %02x%02x", pick(rng, "a1", "a2", "a3"), d, round))
			if rng.Intn(2) == 0 {
				h = append(h, "range")
			}
			h = append(h, "reopen", "range")
		}
		hs = append(hs, h)
	}
	for i := 0; i < nh; i++ {
		kind := pick(rng, "db", "db", "serial", "serial", "mem")
		shards := pick(rng, 0, 0, 0, 2, 3, 5)
		batch := pick(rng, 1, 2, 3, 3, 5, 8, 100)
		withTick := i < nTick && kind != "mem"
		delay := 3600
		if withTick {
			delay = 1
		}
		nkeys := 3 + rng.Intn(5)
		keys := make([][]byte, nkeys)
		ks := make([]string, nkeys)
		for j := range keys {
			keys[j] = []byte{byte(rng.Intn(256)), byte(j)}
			if rng.Intn(4) == 0 {
				keys[j] = []byte{byte(j)}
			}
			if j > 0 && rng.Intn(4) == 0 {
				// a key that EXTENDS another key of the history (the two are neighbours in LevelDB's order and one is a prefix of
				// the other): a removed or never written key must not be answered from its extensions, nor the reverse
				keys[j] = append(append([]byte{}, keys[rng.Intn(j)]...), byte(pick(rng, 0, 0, 1, 0xff, j)))
			}
			ks[j] = hx(keys[j])
		}
		if i%9 == 4 {
			// the EMPTY key is a key like any other (every persister accepts it; the shard id provider routes it to shard 0)
			keys[0] = []byte{}
			ks[0] = hx(keys[0])
		}
		h := []string{fmt.Sprintf("begin persist kind=%s shards=%d batch=%d delay=%d keys=%s", kind, shards, batch, delay, strings.Join(ks, ","))}
		n := steps
		if withTick {
			n = 20
		}
		for s := 0; s < n; s++ {
			k := hx(keys[rng.Intn(nkeys)])
			x := rng.Intn(100)
			switch {
			case x < 55:
				v := pick(rng, "nil", "-", "aa", "bb", fmt.Sprintf("%02x%02x", s, rng.Intn(256)), strings.Repeat("cd", 40))
				if i%6 == 5 && rng.Intn(10) == 0 {
					// large values (a size threshold somewhere on the write path must not change what a key reads as)
					v = pick(rng, "rep:4097:e1", "rep:65537:e2", "rep:1048593:e3", "rep:1048576:e4")
				}
				h = append(h, fmt.Sprintf("put %s %s", k, v))
			case x < 80:
				h = append(h, "rm "+k)
			case x < 86 || (!withTick && x < 90):
				if kind != "mem" && rng.Intn(8) == 0 {
					h = append(h, "destroy")
				} else if kind != "mem" {
					h = append(h, "reopen")
					if rng.Intn(2) == 0 {
						h = append(h, "range")
					}
				}
			default:
				if withTick {
					if rng.Intn(2) == 0 {
						h = append(h, "rm "+k)
					}
					if kind == "db" && shards == 0 && rng.Intn(2) == 0 {
						v := pick(rng, "-", "aa", fmt.Sprintf("%02x%02x", s, rng.Intn(256)))
						h = append(h, fmt.Sprintf("tickput %s %s", k, v), "reopen", "range")
					} else {
						h = append(h, "tick", "range")
					}
				} else if kind == "mem" || batch == 1 {
					h = append(h, "range")
				}
			}
		}
		if kind != "mem" {
			h = append(h, "reopen", "range")
		}
		hs = append(hs, h)
	}
	return hs
}
