package main

import (
	"fmt"
	"io"
	"math/rand"
	"os"
	"path/filepath"
	"sort"
	"strings"
	"sync"
	"sync/atomic"
	"time"

	"github.com/multiversx/mx-chain-storage-go/leveldb"
	"github.com/multiversx/mx-chain-storage-go/types"
	"github.com/syndtr/goleveldb/leveldb/storage"
)

// crash component (C10): every storage write/sync event and every operation boundary as a crash point
//
//	begin crash kind=db|serial batch=N delay=D
//	put k v | rm k | tick | close | reopen        executed on a persister whose goleveldb storage is wrapped by a recorder;
//	                                              at every recorded storage event during the call, and after the call, crash images of the
//	                                              directory are materialised (unsynced tail: none / torn / all), each reopened with the
//	                                              UNMODIFIED constructor and dumped; the maps are appended to the line (img=…) for the model,
//	                                              which answers whether each is an allowed flush boundary.
type crashComp struct{}

func init() { register("crash", crashComp{}) }

// OpTimeout: single operations of this component are whole runs / scans
func (crashComp) OpTimeout() time.Duration { return 15 * time.Minute }

func (crashComp) Parallel() bool { return true }

// ---- recording storage

type recStorage struct {
	storage.Storage
	dir     string
	mu      sync.Mutex
	fs      sync.RWMutex // file operations (read side) vs. taking a crash image (write side)
	written map[string]int64 // file name → bytes written
	synced  map[string]int64 // file name → bytes known durable
	onEvent func(kind string)
}

func genName(fd storage.FileDesc) string {
	switch fd.Type {
	case storage.TypeManifest:
		return fmt.Sprintf("MANIFEST-%06d", fd.Num)
	case storage.TypeJournal:
		return fmt.Sprintf("%06d.log", fd.Num)
	case storage.TypeTable:
		return fmt.Sprintf("%06d.ldb", fd.Num)
	default:
		return fmt.Sprintf("%06d.tmp", fd.Num)
	}
}

type recWriter struct {
	storage.Writer
	s    *recStorage
	name string
}

// Every file operation of the engine runs under the READ side of `fs`; a crash image is copied under its WRITE side, so an
// image is a point-in-time state of the directory between two file operations — also while goleveldb's background goroutines
// (journal recovery after an open, memtable and table compaction) are at work. (Copying without it produced, under heavy
// machine load, an image mixing an old CURRENT/MANIFEST with a directory listing taken before a new table appeared: a state
// no crash can leave behind, reported as `completed-flush-not-durable`.)
func (w *recWriter) Write(p []byte) (int, error) {
	w.s.fs.RLock()
	n, err := w.Writer.Write(p)
	w.s.mu.Lock()
	w.s.written[w.name] += int64(n)
	w.s.mu.Unlock()
	w.s.fs.RUnlock()
	w.s.event("write:" + w.name)
	return n, err
}

func (w *recWriter) Sync() error {
	w.s.fs.RLock()
	err := w.Writer.Sync()
	w.s.mu.Lock()
	w.s.synced[w.name] = w.s.written[w.name]
	w.s.mu.Unlock()
	w.s.fs.RUnlock()
	w.s.event("sync:" + w.name)
	return err
}

func (s *recStorage) event(kind string) {
	if s.onEvent != nil {
		s.onEvent(kind)
	}
}

func (s *recStorage) Create(fd storage.FileDesc) (storage.Writer, error) {
	s.fs.RLock()
	w, err := s.Storage.Create(fd)
	if err != nil {
		s.fs.RUnlock()
		return nil, err
	}
	name := genName(fd)
	s.mu.Lock()
	s.written[name] = 0
	s.synced[name] = 0
	s.mu.Unlock()
	s.fs.RUnlock()
	s.event("create:" + name)
	return &recWriter{Writer: w, s: s, name: name}, nil
}

func (s *recStorage) SetMeta(fd storage.FileDesc) error {
	s.fs.RLock()
	err := s.Storage.SetMeta(fd)
	s.fs.RUnlock()
	s.event("setmeta:" + genName(fd))
	return err
}

func (s *recStorage) Remove(fd storage.FileDesc) error {
	s.fs.RLock()
	err := s.Storage.Remove(fd)
	s.fs.RUnlock()
	s.event("remove:" + genName(fd))
	return err
}

func (s *recStorage) Rename(o, n storage.FileDesc) error {
	s.fs.RLock()
	err := s.Storage.Rename(o, n)
	s.mu.Lock()
	s.written[genName(n)] = s.written[genName(o)]
	s.synced[genName(n)] = s.synced[genName(o)]
	s.mu.Unlock()
	s.fs.RUnlock()
	s.event("rename:" + genName(n))
	return err
}

// ---- runner

type crashRunner struct {
	violBuf
	tagBuf
	kind         string
	batch, delay int
	dir          string
	imgSeq       int
	stor         *recStorage
	p            types.Persister
	last         string
	sampling     bool
	images       []string // image directories produced during the current call
	imgInfo      []string
	rng          *rand.Rand
	budget       int
	// C10 oracle (independent of the Lean model): reference batching state
	flushed map[string]string
	pending [][2]string // op, key[=value]
	gate    *timerGate
}

func (r *crashRunner) refFlush() {
	for _, op := range r.pending {
		if op[0] == "put" {
			kv := strings.SplitN(op[1], "=", 2)
			r.flushed[kv[0]] = kv[1]
		} else {
			delete(r.flushed, op[1])
		}
	}
	r.pending = nil
}

func showMap(m map[string]string) string {
	ks := make([]string, 0, len(m))
	for k := range m {
		ks = append(ks, k)
	}
	sort.Strings(ks)
	parts := make([]string, len(ks))
	for i, k := range ks {
		parts[i] = k + "=" + m[k]
	}
	return "[" + strings.Join(parts, ",") + "]"
}

func (crashComp) NewRunner(begin string) Runner {
	kv := parseKV(strings.Fields(begin))
	r := &crashRunner{kind: kv["kind"], batch: int(atou(kv["batch"])), delay: int(atou(kv["delay"])), rng: rand.New(rand.NewSource(int64(atou(kv["seed"])))), budget: 400}
	r.dir = filepath.Join(scratchBase(), fmt.Sprintf("svh-crash-%d-%d", os.Getpid(), atomic.AddInt64(&persistDirCounter, 1)))
	_ = os.RemoveAll(r.dir)
	r.open()
	return r
}

func (r *crashRunner) open() {
	_ = os.MkdirAll(filepath.Join(r.dir, "db"), 0o700)
	fs, err := storage.OpenFile(filepath.Join(r.dir, "db"), false)
	if err != nil {
		panic(err)
	}
	r.stor = &recStorage{Storage: fs, dir: filepath.Join(r.dir, "db"), written: map[string]int64{}, synced: map[string]int64{}}
	// files that exist already are durable
	entries, _ := os.ReadDir(r.stor.dir)
	for _, e := range entries {
		if st, err := e.Info(); err == nil {
			r.stor.written[e.Name()] = st.Size()
			r.stor.synced[e.Name()] = st.Size()
		}
	}
	r.stor.onEvent = r.onEvent
	name := filepath.Join(r.dir, "db")
	if r.delay == 1 {
		r.gate = registerGate(name)
	}
	if r.kind == "serial" {
		r.p, err = leveldb.VerifNewSerialDBWithStorage(r.stor, name, r.delay, r.batch)
	} else {
		r.p, err = leveldb.VerifNewDBWithStorage(r.stor, name, r.delay, r.batch)
	}
	if err != nil {
		panic(err)
	}
}

func (r *crashRunner) Close() {
	unregisterGate(filepath.Join(r.dir, "db"))
	if r.p != nil {
		_ = r.p.Close()
		_ = r.stor.Storage.Close()
	}
	_ = os.RemoveAll(r.dir)
}

func (r *crashRunner) LastLine() string { l := r.last; r.last = ""; return l }

// called synchronously from inside the storage call: the writer is blocked, the directory is quiescent
func (r *crashRunner) onEvent(kind string) {
	if !r.sampling || r.budget <= 0 {
		return
	}
	r.tag("event:" + strings.SplitN(kind, ":", 2)[0])
	for _, tail := range []string{"none", "torn", "all"} {
		r.snapshot(kind, tail)
	}
}

func (r *crashRunner) snapshot(kind, tail string) {
	if r.budget <= 0 {
		return
	}
	r.budget--
	r.imgSeq++
	img := filepath.Join(r.dir, fmt.Sprintf("img%d", r.imgSeq))
	_ = os.MkdirAll(img, 0o700)
	r.stor.fs.Lock()
	defer r.stor.fs.Unlock()
	entries, _ := os.ReadDir(r.stor.dir)
	r.stor.mu.Lock()
	defer r.stor.mu.Unlock()
	for _, e := range entries {
		name := e.Name()
		if name == "LOCK" {
			continue
		}
		src := filepath.Join(r.stor.dir, name)
		data, err := os.ReadFile(src)
		if err != nil {
			continue
		}
		if w, ok := r.stor.written[name]; ok {
			s := r.stor.synced[name]
			keep := w
			switch tail {
			case "none":
				keep = s
			case "torn":
				keep = s + (w-s)/2
				if w-s > 3 {
					keep = s + 1 + r.rng.Int63n(w-s-1)
				}
			}
			if keep < int64(len(data)) {
				data = data[:keep]
			}
		}
		_ = os.WriteFile(filepath.Join(img, name), data, 0o600)
	}
	r.images = append(r.images, img)
	r.imgInfo = append(r.imgInfo, kind+"/"+tail)
}

// reopen an image with the UNMODIFIED constructor and dump it
func (r *crashRunner) recover(img string) string {
	var p types.Persister
	var err error
	if r.kind == "serial" {
		p, err = leveldb.NewSerialDB(img, 3600, r.batch, 10)
	} else {
		p, err = leveldb.NewDB(img, 3600, r.batch, 10)
	}
	if err != nil {
		return "OPENERR"
	}
	m := map[string]string{}
	p.RangeKeys(func(k, v []byte) bool { m[hx(k)] = hx(v); return true })
	_ = p.Close()
	_ = os.RemoveAll(img)
	ks := make([]string, 0, len(m))
	for k := range m {
		ks = append(ks, k)
	}
	sort.Strings(ks)
	parts := make([]string, len(ks))
	for i, k := range ks {
		parts[i] = k + "=" + m[k]
	}
	return "[" + strings.Join(parts, ",") + "]"
}

func (r *crashRunner) Exec(line string) string {
	t := strings.Fields(line)
	var base []string
	for _, x := range t {
		if !strings.HasPrefix(x, "img=") {
			base = append(base, x)
		}
	}
	r.images, r.imgInfo = nil, nil
	r.sampling = true
	res := "ok"
	if r.flushed == nil {
		r.flushed = map[string]string{}
	}
	before := showMap(r.flushed)
	switch t[0] {
	case "put":
		r.pending = append(r.pending, [2]string{"put", hx(unhx(t[1])) + "=" + hx(unhx(t[2]))})
	case "rm":
		r.pending = append(r.pending, [2]string{"rm", hx(unhx(t[1]))})
	}
	if (t[0] == "put" || t[0] == "rm") && len(r.pending) >= r.batch || t[0] == "tick" || t[0] == "close" {
		r.refFlush()
	}
	after := showMap(r.flushed)
	switch t[0] {
	case "put":
		v := unhx(t[2])
		if err := r.p.Put(unhx(t[1]), v); err != nil {
			res = "err"
		}
	case "rm":
		if err := r.p.Remove(unhx(t[1])); err != nil {
			res = "err"
		}
	case "tick":
		if r.gate == nil || !letTimerFlush(r.gate, 30*time.Second) {
			// not a violation by itself: the boundary image taken below must be the flushed state
			r.tag("tick-unobserved")
		}
	case "close":
		unregisterGate(filepath.Join(r.dir, "db"))
		if err := r.p.Close(); err != nil {
			res = "err"
		}
		r.p = nil
		_ = r.stor.Storage.Close()
	case "reopen":
		r.open()
	default:
		r.sampling = false
		return "bad-op"
	}
	r.sampling = false
	// operation boundary: everything written is synced (Sync:true), the directory as it is must be a flush boundary
	r.budget += 2
	r.snapshot("boundary", "none")
	r.snapshot("boundary", "all")
	imgs := make([]string, len(r.images))
	for i, img := range r.images {
		imgs[i] = r.recover(img)
		if strings.HasPrefix(r.imgInfo[i], "boundary") {
			imgs[i] = "B" + imgs[i]
		}
		if strings.HasPrefix(imgs[i], "B") {
			if imgs[i][1:] != after {
				r.add("C10", "completed-flush-not-durable", fmt.Sprintf("after %q returned, crash image (%s) recovers %s, expected the flushed state %s", strings.Join(base, " "), r.imgInfo[i], imgs[i][1:], after))
			}
		} else if imgs[i] != before && imgs[i] != after {
			r.add("C10", "not-a-flush-boundary", fmt.Sprintf("crash during %q at %s recovers %s, neither %s nor %s", strings.Join(base, " "), r.imgInfo[i], imgs[i], before, after))
		}
		if strings.HasSuffix(imgs[i], "OPENERR") {
			r.add("C10", "unrecoverable-image", fmt.Sprintf("crash image %s after %q could not be opened", r.imgInfo[i], strings.Join(base, " ")))
		}
	}
	r.tag("images")
	r.last = strings.Join(base, " ") + " img=" + strings.Join(imgs, ";")
	verdicts := make([]string, len(imgs))
	for i := range imgs {
		verdicts[i] = "allowed"
	}
	return res + " " + strings.Join(verdicts, " ")
}

var _ io.Writer = (*recWriter)(nil)

func (crashComp) Gen(rng *rand.Rand, tier string) [][]string {
	nh, steps, nTick := 24, 30, 3
	if tier == "thorough" {
		nh, steps, nTick = 300, 60, 30
	}
	var hs [][]string
	// directed: a batch whose encoded size is several MiB (beyond any buffer size an engine or a wrapper might split writes
	// at): it must reach the disk as ONE atomic write all the same — every image taken during its flush is a flush boundary
	for d, kind := range []string{"db", "serial"} {
		h := []string{fmt.Sprintf("begin crash kind=%s batch=6 delay=3600 seed=%d", kind, 7700+d)}
		h = append(h, "put 50 aa", "put 51 bb", "rm 50", "put 5a dd", "put 5b ee", "rm 5a") // a first, small batch
		for i := 0; i < 6; i++ { // the second batch: six values of 1 MiB
			h = append(h, fmt.Sprintf("put %02x rep:1048576:%02x", 0x52+i, 0xb0+i))
		}
		h = append(h, "put 51 cc", "rm 52", "close", "reopen")
		hs = append(hs, h)
	}
	for i := 0; i < nh; i++ {
		kind := pick(rng, "db", "serial")
		batch := pick(rng, 1, 2, 3, 3, 5)
		withTick := i < nTick
		delay := 3600
		if withTick {
			delay = 1
		}
		h := []string{fmt.Sprintf("begin crash kind=%s batch=%d delay=%d seed=%d", kind, batch, delay, rng.Intn(1<<30))}
		n := steps
		if withTick {
			n = 14
		}
		nkeys := 3 + rng.Intn(4)
		for s := 0; s < n; s++ {
			k := fmt.Sprintf("%02x", 0x50+rng.Intn(nkeys))
			switch x := rng.Intn(100); {
			case x < 60:
				h = append(h, fmt.Sprintf("put %s %s", k, pick(rng, "aa", "bb", fmt.Sprintf("%02x%02x", s, rng.Intn(256)), strings.Repeat("ef", 30))))
			case x < 85:
				h = append(h, "rm "+k)
			case x < 90 || (!withTick && x < 93):
				h = append(h, "close", "reopen")
			default:
				if withTick {
					// timer flush, often of a batch that holds only removals (or a put and its removal)
					if rng.Intn(2) == 0 {
						h = append(h, "rm "+k)
					}
					if rng.Intn(4) == 0 {
						h = append(h, fmt.Sprintf("put %s cc", k), "rm "+k)
					}
					h = append(h, "tick")
				}
			}
		}
		h = append(h, "close", "reopen")
		hs = append(hs, h)
	}
	return hs
}
