package main

import (
	"bytes"
	"fmt"
	"math/rand"
	"os"
	"path/filepath"
	"runtime"
	"sort"
	"strconv"
	"strings"
	"sync"
	"sync/atomic"
	"time"

	"github.com/anishathalye/porcupine"
	"github.com/multiversx/mx-chain-storage-go/types"
)

// concp component (C11): concurrent use of leveldb.DB / leveldb.SerialDB
//
//	begin concp kind=db|serial batch=N keys=k1,k2
//	seq put:k:v | seq rm:k | seq get:k            sequential operation (modelled)
//	prog <t> op;op;...                             program of thread t (modelled)
//	sched t0 t1 ...                                forced schedule over the threads' blocks (modelled): block boundaries are the verifPoint hooks
//	window <hookid> <parkedOp> <probeOp>...        park the first goroutine reaching <hookid> while running <parkedOp>, run the probes, release;
//	                                               the recorded history is checked for linearizability (oracle only)
//	stress <seed> <threads> <ops>                  randomised concurrent workload with delay injection at the hooks (oracle only)
type concpComp struct{}

func init() { register("concp", concpComp{}) }

// the hook dispatcher is process-global: histories of this component run one at a time
// OpTimeout: single operations of this component are whole runs / scans
func (concpComp) OpTimeout() time.Duration { return 15 * time.Minute }

func (concpComp) Parallel() bool { return false }

type cop struct {
	kind string // put rm get
	k, v []byte
}

func parseCop(s string) cop {
	p := strings.Split(s, ":")
	c := cop{kind: p[0], k: unhx(p[1])}
	if len(p) > 2 {
		c.v = unhx(p[2])
	}
	return c
}

func (c cop) String() string {
	if c.kind == "put" {
		return "put:" + hx(c.k) + ":" + hx(c.v)
	}
	return c.kind + ":" + hx(c.k)
}

func gid() uint64 {
	var buf [64]byte
	n := runtime.Stack(buf[:], false)
	f := strings.Fields(string(buf[:n]))
	id, _ := strconv.ParseUint(f[1], 10, 64)
	return id
}

type concpRunner struct {
	violBuf
	tagBuf
	kind  string
	batch int
	delay int
	gate  *timerGate
	keys  [][]byte
	dir   string
	p     types.Persister
	progs map[int][]cop

	// forced-schedule machinery
	mu      sync.Mutex
	threads map[uint64]*cthread // by goroutine id
	// window / stress machinery
	parkID    string
	parkCh    chan struct{} // closed when somebody parked
	releaseCh chan struct{}
	parked    int32
	jitter    int32
	rngMu     sync.Mutex
	rng       *rand.Rand
}

type cthread struct {
	token chan struct{}
	done  chan string // "parked" or "ret"
}

func (concpComp) NewRunner(begin string) Runner {
	kv := parseKV(strings.Fields(begin))
	r := &concpRunner{kind: kv["kind"], batch: int(atou(kv["batch"])), progs: map[int][]cop{}, threads: map[uint64]*cthread{}}
	for _, k := range strings.Split(kv["keys"], ",") {
		if k != "" {
			r.keys = append(r.keys, unhx(k))
		}
	}
	r.dir = filepath.Join(scratchBase(), fmt.Sprintf("svh-concp-%d-%d", os.Getpid(), atomic.AddInt64(&persistDirCounter, 1)))
	_ = os.RemoveAll(r.dir)
	var err error
	r.delay = 3600
	if kv["timer"] == "1" {
		r.delay = 1
		r.gate = registerGate(r.dir)
	}
	r.p, err = openPersister(r.kind, r.dir, r.delay, r.batch)
	if err != nil {
		panic(err)
	}
	concpHook.Store(r.hook)
	return r
}

func (r *concpRunner) Close() {
	unregisterGate(r.dir)
	concpHook.Store(func(string) {})
	if r.releaseCh != nil {
		select {
		case <-r.releaseCh:
		default:
			close(r.releaseCh)
		}
	}
	_ = r.p.Close()
	_ = os.RemoveAll(r.dir)
}

func (r *concpRunner) hook(id string) {
	// forced schedules: a registered worker parks at every block boundary
	r.mu.Lock()
	th := r.threads[gid()]
	r.mu.Unlock()
	if th != nil {
		if strings.HasSuffix(id, "afterBatchPut") || strings.HasSuffix(id, "afterBatchDelete") || strings.HasSuffix(id, "beforeDbRead") {
			th.done <- "parked"
			<-th.token
		}
		return
	}
	// window probes: park the first arrival at the armed hook
	if r.parkID != "" && id == r.parkID && atomic.CompareAndSwapInt32(&r.parked, 0, 1) {
		close(r.parkCh)
		<-r.releaseCh
		return
	}
	// stress: delay injection
	if atomic.LoadInt32(&r.jitter) == 1 {
		r.rngMu.Lock()
		d := r.rng.Intn(4)
		r.rngMu.Unlock()
		switch d {
		case 0:
			runtime.Gosched()
		case 1:
			time.Sleep(time.Duration(20+d*30) * time.Microsecond)
		}
	}
}

func (r *concpRunner) do(c cop) string {
	switch c.kind {
	case "put":
		if err := r.p.Put(c.k, c.v); err != nil {
			return "err"
		}
		return "-"
	case "rm":
		if err := r.p.Remove(c.k); err != nil {
			return "err"
		}
		return "-"
	case "get":
		v, err := r.p.Get(c.k)
		if err != nil {
			return "!"
		}
		return hx(v)
	case "has":
		if err := r.p.Has(c.k); err != nil {
			return "absent"
		}
		return "present"
	}
	return "?"
}

func (r *concpRunner) final() string {
	parts := make([]string, len(r.keys))
	for i, k := range r.keys {
		v, err := r.p.Get(k)
		if err != nil {
			parts[i] = hx(k) + "=!"
		} else {
			parts[i] = hx(k) + "=" + hx(v)
		}
	}
	return strings.Join(parts, ",")
}

// ---- linearizability oracle (porcupine): per-key register

type regIn struct {
	kind string
	key  string
	val  string
}

var regModel = porcupine.Model{
	Partition: func(history []porcupine.Operation) [][]porcupine.Operation {
		m := map[string][]porcupine.Operation{}
		for _, o := range history {
			k := o.Input.(regIn).key
			m[k] = append(m[k], o)
		}
		var out [][]porcupine.Operation
		for _, v := range m {
			out = append(out, v)
		}
		return out
	},
	Init: func() interface{} { return "!" },
	Step: func(state, input, output interface{}) (bool, interface{}) {
		in := input.(regIn)
		switch in.kind {
		case "put":
			return true, in.val
		case "rm":
			return true, "!"
		case "has":
			if state.(string) == "!" {
				return output.(string) == "absent", state
			}
			return output.(string) == "present", state
		default:
			return output.(string) == state.(string), state
		}
	},
	Equal: func(a, b interface{}) bool { return a.(string) == b.(string) },
}

type histRec struct {
	mu  sync.Mutex
	ops []porcupine.Operation
	t0  time.Time
}

func (h *histRec) record(client int, c cop, call, ret int64, out string) {
	h.mu.Lock()
	h.ops = append(h.ops, porcupine.Operation{ClientId: client, Input: regIn{c.kind, string(c.k), hx(c.v)}, Call: call, Output: out, Return: ret})
	h.mu.Unlock()
}

func (r *concpRunner) checkLin(h *histRec, prefix []porcupine.Operation, where string) (ok bool) {
	ok = true
	all := append(append([]porcupine.Operation{}, prefix...), h.ops...)
	if !porcupine.CheckOperations(regModel, all) {
		ok = false
		// describe the history
		sort.Slice(all, func(i, j int) bool { return all[i].Call < all[j].Call })
		var sb strings.Builder
		for _, o := range all {
			in := o.Input.(regIn)
			fmt.Fprintf(&sb, "[c%d %s %s %s -> %v @%d..%d] ", o.ClientId, in.kind, hx([]byte(in.key)), in.val, o.Output, o.Call, o.Return)
		}
		r.add("C11", "not-linearizable", where+": "+sb.String())
	}
	return ok
}

// current state as a prefix of sequential puts (so that a window/stress history can start from a non-empty store)
func (r *concpRunner) statePrefix() []porcupine.Operation {
	var pre []porcupine.Operation
	t := int64(-1000)
	for _, k := range r.keys {
		v, err := r.p.Get(k)
		if err == nil {
			pre = append(pre, porcupine.Operation{ClientId: 99, Input: regIn{"put", string(k), hx(v)}, Call: t, Output: "-", Return: t + 1})
			t += 2
		}
	}
	return pre
}

func (r *concpRunner) Exec(line string) string {
	t := strings.Fields(line)
	switch t[0] {
	case "seq":
		return r.do(parseCop(t[1]))
	case "wseq":
		r.do(parseCop(t[1]))
		return "-"
	case "prog":
		ti, _ := strconv.Atoi(t[1])
		var ops []cop
		for _, s := range strings.Split(t[2], ";") {
			if s != "" {
				ops = append(ops, parseCop(s))
			}
		}
		r.progs[ti] = ops
		return "ok"
	case "sched":
		return r.execSched(t[1:])
	case "window":
		r.execWindow(t[1], parseCop(t[2]), t[3:])
		return "-"
	case "timerwindow":
		r.execTimerWindow(t[1:])
		return "-"
	case "stress":
		seed, _ := strconv.ParseInt(t[1], 10, 64)
		nt, _ := strconv.Atoi(t[2])
		nops, _ := strconv.Atoi(t[3])
		r.execStress(seed, nt, nops)
		return "-"
	}
	return "bad-op"
}

// forced schedule: every entry lets one thread run exactly one block
func (r *concpRunner) execSched(sched []string) string {
	n := 0
	for ti := range r.progs {
		if ti+1 > n {
			n = ti + 1
		}
	}
	results := make([][]string, n)
	ths := make([]*cthread, n)
	finished := make([]bool, n)
	var wg sync.WaitGroup
	for ti := 0; ti < n; ti++ {
		th := &cthread{token: make(chan struct{}), done: make(chan string)}
		ths[ti] = th
		ops := r.progs[ti]
		wg.Add(1)
		go func(ti int, th *cthread, ops []cop) {
			defer wg.Done()
			r.mu.Lock()
			r.threads[gid()] = th
			r.mu.Unlock()
			for _, c := range ops {
				<-th.token
				res := r.do(c)
				results[ti] = append(results[ti], c.String()+"="+res)
				th.done <- "ret"
			}
			// swallow further tokens
			for range th.token {
				th.done <- "idle"
			}
		}(ti, ths[ti], ops)
	}
	timeout := false
	for _, s := range sched {
		ti, _ := strconv.Atoi(s)
		if ti >= n || finished[ti] {
			continue
		}
		select {
		case ths[ti].token <- struct{}{}:
		case <-time.After(30 * time.Second):
			timeout = true
		}
		if timeout {
			break
		}
		select {
		case <-ths[ti].done:
		case <-time.After(30 * time.Second):
			timeout = true
		}
		if timeout {
			break
		}
	}
	if timeout {
		r.add("C11", "schedule-infeasible", "a thread did not reach its next block boundary within 30s (block structure differs from the model, or deadlock)")
		return "TIMEOUT"
	}
	// let every thread run to completion (unscheduled remainder runs sequentially in thread order)
	for ti := 0; ti < n; ti++ {
		for {
			if len(results[ti]) >= len(r.progs[ti]) {
				break
			}
			ths[ti].token <- struct{}{}
			<-ths[ti].done
		}
		close(ths[ti].token)
	}
	wg.Wait()
	r.mu.Lock()
	r.threads = map[uint64]*cthread{}
	r.mu.Unlock()
	var sb strings.Builder
	for ti := 0; ti < n; ti++ {
		fmt.Fprintf(&sb, "t%d=[%s] ", ti, strings.Join(results[ti], ","))
	}
	r.tag("forced-schedule")
	r.progs = map[int][]cop{}
	return sb.String() + "final=" + r.final()
}

func (r *concpRunner) timed(h *histRec, client int, c cop, wait time.Duration) bool {
	done := make(chan struct{})
	go func() {
		call := int64(time.Since(h.t0))
		out := r.do(c)
		h.record(client, c, call, int64(time.Since(h.t0)), out)
		close(done)
	}()
	select {
	case <-done:
		return true
	case <-time.After(wait):
		return false
	}
}

// window probe: park one operation at a hook, run probes around it, check the history
func (r *concpRunner) execWindow(hookID string, parkedOp cop, probes []string) {
	pre := r.statePrefix()
	h := &histRec{t0: time.Now()}
	r.parkID = hookID
	r.parkCh = make(chan struct{})
	r.releaseCh = make(chan struct{})
	atomic.StoreInt32(&r.parked, 0)
	parkedDone := make(chan struct{})
	go func() {
		call := int64(time.Since(h.t0))
		out := r.do(parkedOp)
		h.record(0, parkedOp, call, int64(time.Since(h.t0)), out)
		close(parkedDone)
	}()
	reached := false
	select {
	case <-r.parkCh:
		reached = true
		r.tag("window-parked:" + hookID)
	case <-parkedDone:
		r.tag("window-not-reached")
	case <-time.After(500 * time.Millisecond):
		r.tag("window-timeout")
	}
	var pending []chan struct{}
	_ = pending
	blocked := 0
	nops := 1
	tickPending := false
	var reopenDone chan struct{}
	closedNil := false
	for i, ps := range probes {
		if ps == "reopen" {
			// Close + reopen issued while the operation is parked (last probe only: nothing else runs while the persister is
			// being replaced). Close returning nil promises that everything acknowledged before it is on disk (C09).
			reopenDone = make(chan struct{})
			go func() {
				defer close(reopenDone)
				old := r.p
				if err := old.Close(); err != nil {
					r.tag("window-reopen-close-error")
					return
				}
				closedNil = true
				np, err := openPersister(r.kind, r.dir, r.delay, r.batch)
				if err != nil {
					panic(err)
				}
				r.p = np
			}()
			select {
			case <-reopenDone:
			case <-time.After(150 * time.Millisecond):
			}
			continue
		}
		if ps == "tick" {
			// let one timer flush happen while the operation is parked (persisters opened with timer=1 only)
			if g := r.gate; g != nil && !tickPending {
				select {
				case <-g.arrived:
					g.release <- struct{}{}
					select {
					case <-g.done:
						r.tag("window-tick")
					case <-time.After(3 * time.Second):
						tickPending = true
						r.tag("window-tick-blocked")
					}
				case <-time.After(timerPatience(4 * time.Second)):
					r.tag("window-tick-unobserved")
				}
			}
			continue
		}
		nops++
		if !r.timed(h, i+1, parseCop(ps), 150*time.Millisecond) {
			blocked++
		}
	}
	if blocked > 0 {
		r.tag("window-probe-blocked")
	}
	close(r.releaseCh)
	if reached {
		<-parkedDone
	}
	if tickPending {
		select {
		case <-r.gate.done:
		case <-time.After(flushSlack()):
		}
	}
	// wait for blocked probes
	deadline := time.Now().Add(30 * time.Second)
	for time.Now().Before(deadline) {
		h.mu.Lock()
		n := len(h.ops)
		h.mu.Unlock()
		if n >= nops {
			break
		}
		time.Sleep(time.Millisecond)
	}
	r.parkID = ""
	h.mu.Lock()
	n := len(h.ops)
	h.mu.Unlock()
	if n < nops {
		r.add("C11", "deadlock", fmt.Sprintf("window %s: %d of %d operations never returned", hookID, nops-n, nops))
		return
	}
	if reopenDone != nil {
		select {
		case <-reopenDone:
		case <-time.After(30 * time.Second):
			r.add("C11", "deadlock", fmt.Sprintf("window %s: Close issued during the window never returned", hookID))
			return
		}
	}
	r.finalReads(h)
	if !r.checkLin(h, pre, "window "+hookID) && closedNil {
		r.add("C09", "reopen-state-after-concurrent-flush", fmt.Sprintf("window %s: Close returned nil while a flush was in flight; the reopened persister does not hold the acknowledged writes", hookID))
	}
}

// after quiescence read every key once more: the final state belongs to the history
func (r *concpRunner) finalReads(h *histRec) {
	for _, k := range r.keys {
		c := cop{kind: "get", k: k}
		call := int64(time.Since(h.t0))
		out := r.do(c)
		h.record(98, c, call, int64(time.Since(h.t0)), out)
	}
}

// timer window: let the timer flush start, park it between its LevelDB write and the batch reset, run probes, release
func (r *concpRunner) execTimerWindow(probes []string) {
	if r.gate == nil {
		return
	}
	pre := r.statePrefix()
	h := &histRec{t0: time.Now()}
	r.parkID = "db.timer.betweenWriteAndReset"
	r.parkCh = make(chan struct{})
	r.releaseCh = make(chan struct{})
	atomic.StoreInt32(&r.parked, 0)
	select {
	case <-r.gate.arrived:
	case <-time.After(30 * time.Second):
		r.tag("timer-window-unobserved")
		r.parkID = ""
		return
	}
	r.gate.release <- struct{}{}
	reached := false
	select {
	case <-r.parkCh:
		reached = true
		r.tag("timer-window-parked")
	case <-r.gate.done:
		r.tag("timer-window-not-reached")
	case <-time.After(5 * time.Second):
		r.tag("timer-window-timeout")
	}
	for i, ps := range probes {
		r.timed(h, i+1, parseCop(ps), 150*time.Millisecond)
	}
	close(r.releaseCh)
	if reached {
		select {
		case <-r.gate.done:
		case <-time.After(5 * time.Second):
		}
	}
	deadline := time.Now().Add(30 * time.Second)
	for time.Now().Before(deadline) {
		h.mu.Lock()
		n := len(h.ops)
		h.mu.Unlock()
		if n >= len(probes) {
			break
		}
		time.Sleep(time.Millisecond)
	}
	r.parkID = ""
	r.finalReads(h)
	r.checkLin(h, pre, "timer window")
}

func (r *concpRunner) execStress(seed int64, nt, nops int) {
	pre := r.statePrefix()
	h := &histRec{t0: time.Now()}
	r.rng = rand.New(rand.NewSource(seed))
	atomic.StoreInt32(&r.jitter, 1)
	var wg sync.WaitGroup
	for ti := 0; ti < nt; ti++ {
		wg.Add(1)
		rng := rand.New(rand.NewSource(seed*131 + int64(ti)))
		go func(ti int, rng *rand.Rand) {
			defer wg.Done()
			for i := 0; i < nops; i++ {
				k := r.keys[rng.Intn(len(r.keys))]
				var c cop
				switch x := rng.Intn(10); {
				case x < 4:
					c = cop{kind: "put", k: k, v: []byte{byte(ti), byte(i)}}
				case x < 6:
					c = cop{kind: "rm", k: k}
				default:
					c = cop{kind: "get", k: k}
				}
				call := int64(time.Since(h.t0))
				out := r.do(c)
				h.record(ti, c, call, int64(time.Since(h.t0)), out)
			}
		}(ti, rng)
	}
	done := make(chan struct{})
	go func() { wg.Wait(); close(done) }()
	select {
	case <-done:
	case <-time.After(20 * time.Second):
		r.add("C11", "deadlock", "stress workload did not finish within 20s")
		atomic.StoreInt32(&r.jitter, 0)
		return
	}
	atomic.StoreInt32(&r.jitter, 0)
	r.tag("stress")
	r.finalReads(h)
	r.checkLin(h, pre, fmt.Sprintf("stress seed=%d threads=%d", seed, nt))
	_ = bytes.Equal
}

// concclose component (C09): the concp machinery restricted to the directed histories in which Close (and a reopen) arrive
// while a flush is between taking the pending batch and having written it
type concCloseComp struct{ concpComp }

func init() { register("concclose", concCloseComp{}) }

func (concCloseComp) Gen(rng *rand.Rand, tier string) [][]string { return closeWindowHistories() }

// closeWindowHistories: Close (and a reopen) arrive while a flush is in flight (DB: between the size-triggered write and the reset
// of the batch; SerialDB: after the batch swap, before the write) — whatever the flush has taken out of the pending batch must
// be on disk before Close returns nil
func closeWindowHistories() [][]string {
	keys := []string{"01", "02", "03"}
	var hs [][]string
	for d := 0; d < 4; d++ {
		kind, hook := "db", "db.size.betweenWriteAndReset"
		if d%2 == 1 {
			kind, hook = "serial", "serial.putBatch.afterSwap"
		}
		k1, k2, k3 := keys[d%3], keys[(d+1)%3], keys[(d+2)%3]
		h := []string{fmt.Sprintf("begin concp kind=%s batch=3 timer=0 keys=%s", kind, strings.Join(keys, ","))}
		h = append(h, fmt.Sprintf("wseq put:%s:%02x", k1, 0x90+d), fmt.Sprintf("wseq put:%s:%02x", k2, 0x94+d))
		h = append(h, fmt.Sprintf("window %s put:%s:%02x reopen", hook, k3, 0x98+d))
		h = append(h, fmt.Sprintf("wseq put:%s:%02x", k1, 0x9a+d), "wseq rm:"+k2)
		h = append(h, fmt.Sprintf("window %s put:%s:%02x get:%s reopen", hook, k3, 0x9c+d, k1))
		hs = append(hs, h)
	}
	return hs
}

func (concpComp) Gen(rng *rand.Rand, tier string) [][]string {
	nh := 40
	nstress := 6
	if tier == "thorough" {
		nh, nstress = 400, 60
	}
	var hs [][]string
	keys := []string{"01", "02", "03"}
	randOp := func() string {
		k := keys[rng.Intn(len(keys))]
		switch x := rng.Intn(10); {
		case x < 4:
			return fmt.Sprintf("put:%s:%02x", k, rng.Intn(256))
		case x < 6:
			return "rm:" + k
		default:
			return "get:" + k
		}
	}
	randProbe := func() string {
		if rng.Intn(4) == 0 {
			return "has:" + keys[rng.Intn(len(keys))]
		}
		return randOp()
	}
	// directed (histories of their own: window probes are judged by the linearizability checker only, the block model is not
	// advanced by them): a writer stopped right after its entry reached the EMPTY pending batch of a fresh persister, before
	// any of the persister's own bookkeeping — every read entry point must already agree on the key (Get, then Has, then Get)
	for d := 0; d < 6; d++ {
		kind := []string{"db", "serial"}[d%2]
		pfx := kind
		k := keys[d%len(keys)]
		h := []string{fmt.Sprintf("begin concp kind=%s batch=%d timer=0 keys=%s", kind, []int{1, 2, 4}[d%3], strings.Join(keys, ","))}
		h = append(h, fmt.Sprintf("window %s.put.afterBatchPut put:%s:%02x get:%s has:%s get:%s", pfx, k, 0xd0+d, k, k, k))
		h = append(h, fmt.Sprintf("window %s.rm.afterBatchDelete rm:%s get:%s has:%s", pfx, k, k, k))
		h = append(h, fmt.Sprintf("window batch.put.enter put:%s:%02x has:%s get:%s", k, 0xe0+d, k, k))
		hs = append(hs, h)
	}
	// directed, with the real timer: a writer stopped between recording its operation in the pending batch and counting it, on
	// a batch whose counter is zero (fresh persister, or just flushed), while ONE timer flush goes through — the operation is
	// acknowledged afterwards and must be readable whichever side of the flush it fell on
	for d := 0; d < 3; d++ {
		k, k2 := keys[d%len(keys)], keys[(d+1)%len(keys)]
		h := []string{fmt.Sprintf("begin concp kind=db batch=%d timer=1 keys=%s", []int{4, 8, 100}[d], strings.Join(keys, ","))}
		h = append(h, fmt.Sprintf("window db.put.afterBatchPut put:%s:%02x tick get:%s", k, 0xb0+d, k))
		h = append(h, fmt.Sprintf("window none get:%s tick", k)) // an unreachable hook: only the flush (the counter is zero again)
		h = append(h, fmt.Sprintf("window db.rm.afterBatchDelete rm:%s tick get:%s has:%s", k, k, k))
		h = append(h, fmt.Sprintf("window none get:%s tick", k))
		h = append(h, fmt.Sprintf("window batch.put.enter put:%s:%02x tick get:%s", k2, 0xc0+d, k2))
		hs = append(hs, h)
	}
	// directed: the writer whose operation fills the batch is stopped between the LevelDB write of the size-triggered flush and
	// the reset of the batch; operations arriving meanwhile are acknowledged after it and must not be wiped with the flushed ones
	for d := 0; d < 3; d++ {
		k1, k2, k3 := keys[d%3], keys[(d+1)%3], keys[(d+2)%3]
		h := []string{fmt.Sprintf("begin concp kind=db batch=2 timer=0 keys=%s", strings.Join(keys, ","))}
		h = append(h, fmt.Sprintf("wseq put:%s:%02x", k1, 0xa0+d))
		h = append(h, fmt.Sprintf("window db.size.betweenWriteAndReset put:%s:%02x put:%s:%02x get:%s rm:%s", k2, 0xa4+d, k3, 0xa8+d, k3, k1))
		h = append(h, fmt.Sprintf("wseq put:%s:%02x", k2, 0xac+d))
		h = append(h, fmt.Sprintf("window db.size.betweenWriteAndReset rm:%s put:%s:%02x has:%s", k3, k1, 0xae+d, k1))
		hs = append(hs, h)
	}
	hs = append(hs, closeWindowHistories()...)
	for i := 0; i < nh; i++ {
		kind := pick(rng, "db", "serial")
		batch := pick(rng, 1, 2, 2, 3, 4)
		timer := 0
		if kind == "db" && i%5 == 4 {
			timer = 1
			batch = 4
		}
		h := []string{fmt.Sprintf("begin concp kind=%s batch=%d timer=%d keys=%s", kind, batch, timer, strings.Join(keys, ","))}
		for s := 0; s < rng.Intn(5); s++ {
			h = append(h, "seq "+randOp())
		}
		// forced schedules over 2-3 threads
		for round := 0; round < 3; round++ {
			nt := 2 + rng.Intn(2)
			total := 0
			for t := 0; t < nt; t++ {
				n := 1 + rng.Intn(3)
				var ops []string
				for j := 0; j < n; j++ {
					ops = append(ops, randOp())
				}
				total += 2 * n
				h = append(h, fmt.Sprintf("prog %d %s", t, strings.Join(ops, ";")))
			}
			var sched []string
			for j := 0; j < total+2; j++ {
				sched = append(sched, strconv.Itoa(rng.Intn(nt)))
			}
			h = append(h, "sched "+strings.Join(sched, " "))
		}
		// window probes at every hook point
		pfx := "db"
		if kind == "serial" {
			pfx = "serial"
		}
		// batch.put.enter / batch.delete.enter: the writer is stopped on its way INTO the pending batch (after the persister has
		// decided which batch that is); whatever flushes meanwhile must not make the write vanish once it is acknowledged
		hooks := []string{pfx + ".put.afterBatchPut", pfx + ".rm.afterBatchDelete", pfx + ".get.beforeDbRead", "batch.put.enter", "batch.put.enter", "batch.delete.enter"}
		if kind == "db" {
			hooks = append(hooks, "db.get.betweenBatchReads", "db.size.betweenWriteAndReset")
		} else {
			hooks = append(hooks, "serial.putBatch.afterSwap", "serial.beforeWrite")
		}
		for w := 0; w < 4; w++ {
			hk := hooks[rng.Intn(len(hooks))]
			parked := randOp()
			if strings.Contains(hk, ".get.") {
				parked = "get:" + keys[rng.Intn(len(keys))]
			} else if strings.Contains(hk, ".rm.") || strings.Contains(hk, ".delete.") {
				parked = "rm:" + keys[rng.Intn(len(keys))]
			} else {
				parked = fmt.Sprintf("put:%s:%02x", keys[rng.Intn(len(keys))], rng.Intn(256))
			}
			var probes []string
			for j := 0; j < 2+rng.Intn(3); j++ {
				probes = append(probes, randProbe())
			}
			for s := 0; s < rng.Intn(3); s++ {
				h = append(h, "wseq "+randOp())
			}
			h = append(h, fmt.Sprintf("window %s %s %s", hk, parked, strings.Join(probes, " ")))
		}
		if strings.Contains(h[0], "timer=1") {
			for w := 0; w < 2; w++ {
				for s := 0; s < 1+rng.Intn(2); s++ {
					h = append(h, "wseq "+randOp())
				}
				var probes []string
				for j := 0; j < 2+rng.Intn(3); j++ {
					probes = append(probes, randProbe())
				}
				h = append(h, "timerwindow "+strings.Join(probes, " "))
			}
		}
		if i < nstress {
			h = append(h, fmt.Sprintf("stress %d %d %d", rng.Int63n(1<<30), 2+rng.Intn(4), 40))
		}
		hs = append(hs, h)
	}
	return hs
}
