package main

import (
	"bytes"
	"fmt"
	"math/big"
	"math/rand"
	"sort"
	"strconv"
	"strings"

	"github.com/multiversx/mx-chain-core-go/data/transaction"
	"github.com/multiversx/mx-chain-storage-go/immunitycache"
	"github.com/multiversx/mx-chain-storage-go/txcache"
)

// immunity component (C12, C13): immunitycache.ImmunityCache and txcache.CrossTxCache
//
//	begin immunity chunks=.. items=.. bytes=.. n=.. cross=0|1
//	hoa k payload size | put k payload size | rm k | imm k1,k2,.. | clear
type immunityComp struct{}

func init() { register("immunity", immunityComp{}) }

func (immunityComp) Parallel() bool { return true }

type immCache interface {
	hasOrAdd(k, payload []byte, size int) (bool, bool)
	put(k, payload []byte, size int)
	remove(k []byte) bool
	immunize(keys [][]byte) (int, int, bool)
	clear()
	get(k []byte) ([]byte, bool)
	has(k []byte) bool
	peekOK(k []byte) bool
	count() int
	length() int
	numBytes() int
	countImmune() int
	keys() [][]byte
	forEach() map[string][]byte
}

type plainImm struct{ c *immunitycache.ImmunityCache }

func (p plainImm) hasOrAdd(k, pl []byte, sz int) (bool, bool) { return p.c.HasOrAdd(k, pl, sz) }
func (p plainImm) put(k, pl []byte, sz int)                   { p.c.Put(k, pl, sz) }
func (p plainImm) remove(k []byte) bool {
	// Remove is RemoveWithResult without the result: alternate, reading the outcome back through Has for the former
	if len(k) > 0 && k[len(k)-1]%2 == 0 {
		was := p.c.Has(k)
		p.c.Remove(k)
		return was
	}
	return p.c.RemoveWithResult(k)
}
func (p plainImm) immunize(keys [][]byte) (int, int, bool) {
	a, b := p.c.ImmunizeKeys(keys)
	return a, b, true
}
func (p plainImm) clear() { p.c.Clear() }
func (p plainImm) get(k []byte) ([]byte, bool) {
	v, ok := p.c.Get(k)
	if !ok {
		return nil, false
	}
	return v.([]byte), true
}
func (p plainImm) has(k []byte) bool    { return p.c.Has(k) }
func (p plainImm) peekOK(k []byte) bool { _, ok := p.c.Peek(k); return ok }
func (p plainImm) count() int           { return p.c.Count() }
func (p plainImm) length() int          { return p.c.Len() }
func (p plainImm) numBytes() int        { return p.c.NumBytes() }
func (p plainImm) countImmune() int     { return p.c.CountImmune() }
func (p plainImm) keys() [][]byte       { return takeKeys(p.c.Keys()) }
func (p plainImm) forEach() map[string][]byte {
	m := map[string][]byte{}
	p.c.ForEachItem(func(k []byte, v interface{}) { m[string(k)] = v.([]byte) })
	return m
}

// crossImm drives the same cache through CrossTxCache; the payload travels in the transaction's Data field
type crossImm struct{ c *txcache.CrossTxCache }

func mkCrossTx(k, pl []byte, sz int) *txcache.WrappedTransaction {
	return &txcache.WrappedTransaction{Tx: &transaction.Transaction{Data: pl, Value: big.NewInt(0)}, TxHash: k, Size: int64(sz)}
}
func (p crossImm) hasOrAdd(k, pl []byte, sz int) (bool, bool) { return p.c.AddTx(mkCrossTx(k, pl, sz)) }
func (p crossImm) put(k, pl []byte, sz int)                   { p.c.Put(k, mkCrossTx(k, pl, sz), sz) }
func (p crossImm) remove(k []byte) bool                       { return p.c.RemoveTxByHash(k) }
func (p crossImm) immunize(keys [][]byte) (int, int, bool) {
	p.c.ImmunizeTxsAgainstEviction(keys)
	return 0, 0, false
}
func (p crossImm) clear() { p.c.Clear() }
func (p crossImm) get(k []byte) ([]byte, bool) {
	w, ok := p.c.GetByTxHash(k)
	if !ok {
		return nil, false
	}
	return w.Tx.GetData(), true
}
func (p crossImm) has(k []byte) bool    { return p.c.Has(k) }
func (p crossImm) peekOK(k []byte) bool { _, ok := p.c.Peek(k); return ok }
func (p crossImm) count() int           { return p.c.Count() }
func (p crossImm) length() int          { return p.c.Len() }
func (p crossImm) numBytes() int        { return p.c.NumBytes() }
func (p crossImm) countImmune() int     { return p.c.CountImmune() }
func (p crossImm) keys() [][]byte       { return takeKeys(p.c.Keys()) }
func (p crossImm) forEach() map[string][]byte {
	m := map[string][]byte{}
	p.c.ForEachTransaction(func(k []byte, w *txcache.WrappedTransaction) { m[string(k)] = w.Tx.GetData() })
	return m
}

type immRunner struct {
	keyPen
	violBuf
	tagBuf
	c                        immCache
	chunks, items, nbytes, n int
	cross                    bool
	// shadow state for the oracles
	immune  map[string]bool   // accepted immune keys not since removed / cleared
	payload map[string][]byte // payload given when the key became resident
	size    map[string]int
	fifo    []string // single chunk: residents, oldest first
	known   map[string]bool
}

func (immunityComp) NewRunner(begin string) Runner {
	kv := parseKV(strings.Fields(begin))
	r := &immRunner{chunks: int(atou(kv["chunks"])), items: int(atou(kv["items"])), nbytes: int(atou(kv["bytes"])), n: int(atou(kv["n"])), cross: kv["cross"] == "1",
		immune: map[string]bool{}, payload: map[string][]byte{}, size: map[string]int{}, known: map[string]bool{}}
	if r.cross {
		c, err := txcache.NewCrossTxCache(txcache.ConfigDestinationMe{Name: "v", NumChunks: uint32(r.chunks), MaxNumItems: uint32(r.items), MaxNumBytes: uint32(r.nbytes), NumItemsToPreemptivelyEvict: uint32(r.n)})
		if err != nil {
			panic(err)
		}
		r.c = crossImm{c}
	} else {
		c, err := immunitycache.NewImmunityCache(immunitycache.CacheConfig{Name: "v", NumChunks: uint32(r.chunks), MaxNumItems: uint32(r.items), MaxNumBytes: uint32(r.nbytes), NumItemsToPreemptivelyEvict: uint32(r.n)})
		if err != nil {
			panic(err)
		}
		r.c = plainImm{c}
	}
	return r
}

func (r *immRunner) Close() {}

func (r *immRunner) dump() string {
	keys := r.c.keys()
	sort.Slice(keys, func(i, j int) bool { return bytes.Compare(keys[i], keys[j]) < 0 })
	parts := make([]string, len(keys))
	for i, k := range keys {
		v, _ := r.c.get(k)
		parts[i] = hx(k) + ":" + hx(v)
	}
	return fmt.Sprintf("count=%d bytes=%d immune=%d items=[%s]", r.c.count(), r.c.numBytes(), r.c.countImmune(), strings.Join(parts, ","))
}

func (r *immRunner) resident() map[string]bool {
	m := map[string]bool{}
	for _, k := range r.c.keys() {
		m[string(k)] = true
	}
	return m
}

// after every operation: views agree, accounting exact, immune items intact
func (r *immRunner) invariants(where string) {
	res := r.resident()
	if r.c.count() > r.items {
		r.add("C13", "over-capacity", fmt.Sprintf("%s: %d items > MaxNumItems %d", where, r.c.count(), r.items))
	}
	fe := r.c.forEach()
	if r.c.count() != len(res) || r.c.length() != len(res) || len(fe) != len(res) {
		r.add("C13", "views-disagree", fmt.Sprintf("%s: Count=%d Len=%d Keys=%d ForEach=%d", where, r.c.count(), r.c.length(), len(res), len(fe)))
	}
	for k := range r.known {
		_, ok := r.c.get([]byte(k))
		if ok != res[k] || r.c.has([]byte(k)) != res[k] || r.c.peekOK([]byte(k)) != res[k] {
			r.add("C13", "lookup-disagrees", fmt.Sprintf("%s: key %s", where, hx([]byte(k))))
		}
	}
	sum := 0
	for k := range res {
		sum += r.size[k]
	}
	if r.c.numBytes() != sum {
		r.add("C13", "numbytes", fmt.Sprintf("%s: NumBytes=%d, resident sizes sum to %d", where, r.c.numBytes(), sum))
	}
	if r.c.countImmune() != len(r.immune) {
		r.add("C13", "count-immune", fmt.Sprintf("%s: CountImmune=%d, accepted and not removed: %d", where, r.c.countImmune(), len(r.immune)))
	}
	for k := range res {
		v, _ := r.c.get([]byte(k))
		if want, ok := r.payload[k]; ok && !bytes.Equal(v, want) {
			clause := "payload-overwritten"
			prop := "C12"
			r.add(prop, clause, fmt.Sprintf("%s: key %s holds %s, original payload %s (immune=%v)", where, hx([]byte(k)), hx(v), hx(want), r.immune[k]))
		}
	}
}

func (r *immRunner) syncShadow(res map[string]bool) {
	for k := range r.payload {
		if !res[k] {
			delete(r.payload, k)
			delete(r.size, k)
		}
	}
	var nf []string
	for _, k := range r.fifo {
		if res[k] {
			nf = append(nf, k)
		}
	}
	r.fifo = nf
}

func (r *immRunner) execAdd(op string, k, pl []byte, sz int) string {
	before := r.resident()
	preDump := r.dump()
	r.known[string(k)] = true
	var has, added bool
	if op == "hoa" {
		has, added = r.c.hasOrAdd(k, pl, sz)
	} else {
		r.c.put(k, pl, sz)
	}
	after := r.resident()
	where := fmt.Sprintf("after %s %s", op, hx(k))
	ks := string(k)
	if op == "hoa" {
		// C13: flags
		if has != before[ks] {
			r.add("C13", "has-flag", fmt.Sprintf("%s: has=%v but key present before=%v", where, has, before[ks]))
		}
		if added != (after[ks] && !before[ks]) && !(before[ks] && after[ks] && added) {
			r.add("C13", "added-flag", fmt.Sprintf("%s: added=%v, present before=%v after=%v", where, added, before[ks], after[ks]))
		}
		if before[ks] && added {
			r.add("C13", "added-flag", fmt.Sprintf("%s: added=true although the key was already present", where))
		}
		if !has && !added {
			r.tag("add-refused")
			if r.dump() != preDump {
				r.add("C12", "refusal-changed-state", where)
			}
		}
	}
	// C12: evicted items are non-immune
	evicted := 0
	for b := range before {
		if !after[b] {
			evicted++
			if r.immune[b] {
				r.add("C12", "immune-evicted", fmt.Sprintf("%s: immune key %s is gone", where, hx([]byte(b))))
			}
		}
	}
	if evicted > 0 {
		r.tag("add-evicts")
	}
	// single chunk: FIFO reference
	if r.chunks == 1 {
		exp := r.fifoRef(ks, sz, before)
		got := make([]string, 0, len(after))
		for a := range after {
			got = append(got, a)
		}
		sort.Strings(got)
		e2 := append([]string{}, exp...)
		sort.Strings(e2)
		if strings.Join(got, "|") != strings.Join(e2, "|") {
			r.add("C13", "fifo-mismatch", fmt.Sprintf("%s: resident %d keys, FIFO reference %d keys (got %q want %q)", where, len(got), len(e2), hxs(got), hxs(e2)))
			// resync
			exp = nil
			for _, f := range r.fifo {
				if after[f] {
					exp = append(exp, f)
				}
			}
			if after[ks] && !before[ks] {
				exp = append(exp, ks)
			}
		}
		r.fifo = exp
	}
	if after[ks] && !before[ks] {
		r.payload[ks] = pl
		r.size[ks] = sz
		r.tag("add-inserted")
	} else if before[ks] {
		r.tag("add-duplicate")
	}
	r.syncShadow(after)
	r.invariants(where)
	if op == "hoa" {
		return b01(has) + " " + b01(added) + " | " + r.dump()
	}
	return "| " + r.dump()
}

func hxs(l []string) string {
	p := make([]string, len(l))
	for i, s := range l {
		p[i] = hx([]byte(s))
	}
	return strings.Join(p, ",")
}

// fifoRef: single-chunk reference queue (C13): duplicates are no-ops; when item or byte capacity is reached,
// evict batches of n oldest non-immune items while capacity stays reached and full batches were removed
func (r *immRunner) fifoRef(k string, sz int, before map[string]bool) []string {
	q := append([]string{}, r.fifo...)
	if before[k] {
		return q
	}
	bytesOf := func() int {
		s := 0
		for _, x := range q {
			s += r.size[x]
		}
		return s
	}
	exceeded := func() bool { return len(q) >= r.items || bytesOf() >= r.nbytes }
	if exceeded() {
		step := func() int {
			removed := 0
			var nq []string
			for _, x := range q {
				if removed < r.n && !r.immune[x] {
					removed++
					continue
				}
				nq = append(nq, x)
			}
			q = nq
			return removed
		}
		rem := step()
		if rem == 0 {
			return append([]string{}, r.fifo...) // refused
		}
		for exceeded() && rem == r.n {
			rem = step()
		}
	}
	return append(q, k)
}

func (r *immRunner) Exec(line string) string {
	t := strings.Fields(line)
	switch t[0] {
	case "hoa", "put":
		sz, _ := strconv.Atoi(t[3])
		return r.execAdd(t[0], r.k(unhx(t[1])), unhx(t[2]), sz)
	case "rm":
		k := r.k(unhx(t[1]))
		r.known[string(k)] = true
		before := r.resident()
		removed := r.c.remove(k)
		after := r.resident()
		if removed != before[string(k)] || after[string(k)] {
			r.add("C13", "remove-flag", "after rm "+hx(k))
		}
		delete(r.immune, string(k))
		r.syncShadow(after)
		r.invariants("after rm " + hx(k))
		return b01(removed) + " | " + r.dump()
	case "imm":
		var keys [][]byte
		for _, x := range strings.Split(t[1], ",") {
			if x != "" {
				keys = append(keys, unhx(x))
			}
		}
		accept := r.c.countImmune()+len(keys) <= r.items
		res := r.resident()
		now, fut, hasRes := r.c.immunize(keys)
		if accept {
			expNow := 0
			for _, k := range keys {
				r.known[string(k)] = true
				r.immune[string(k)] = true
				if res[string(k)] {
					expNow++
				}
			}
			if hasRes && (now != expNow || fut != len(keys)-expNow) {
				r.add("C13", "immunize-counts", fmt.Sprintf("after imm: numNow=%d numFuture=%d expected %d %d", now, fut, expNow, len(keys)-expNow))
			}
			r.tag("imm-accepted")
		} else {
			if hasRes && (now != 0 || fut != 0) {
				r.add("C13", "immunize-gate", "after imm: refused call reported work")
			}
			r.tag("imm-refused")
		}
		r.invariants("after imm")
		if hasRes {
			return fmt.Sprintf("%d %d | %s", now, fut, r.dump())
		}
		// CrossTxCache does not return the counters; recompute what the model prints from the shadow
		expNow := 0
		if accept {
			for _, k := range keys {
				if res[string(k)] {
					expNow++
				}
			}
			return fmt.Sprintf("%d %d | %s", expNow, len(keys)-expNow, r.dump())
		}
		return fmt.Sprintf("0 0 | %s", r.dump())
	case "clear":
		r.c.clear()
		r.immune = map[string]bool{}
		r.syncShadow(map[string]bool{})
		if r.c.count() != 0 {
			r.add("C13", "clear", "after clear")
		}
		r.invariants("after clear")
		r.tag("clear")
		return "| " + r.dump()
	}
	return "bad-op"
}

func (immunityComp) Gen(rng *rand.Rand, tier string) [][]string {
	nh, steps := 800, 60
	if tier == "thorough" {
		nh, steps = 6000, 90
	}
	var hs [][]string
	for i := 0; i < nh; i++ {
		chunks := pick(rng, 1, 1, 1, 2, 4, 16)
		items := chunks * pick(rng, 1, 1, 2, 3, 4)
		if rng.Intn(3) == 0 {
			items += rng.Intn(chunks) // not a multiple of the chunk count: per-chunk limits are rounded down
		}
		if items < 4 {
			items = 4
		}
		nb := pick(rng, 4, 40, 100, 400, 100000)
		if nb < chunks {
			nb = chunks
		}
		n := chunks * pick(rng, 1, 1, 2, 3)
		cross := rng.Intn(3) == 0
		h := []string{fmt.Sprintf("begin immunity chunks=%d items=%d bytes=%d n=%d cross=%s", chunks, items, nb, n, b01(cross))}
		nkeys := 4 + rng.Intn(9)
		// one history in thirty declares sizes at and beyond 2^32 (a legal `int` on the platforms the node runs on): the byte
		// accounting and the capacity test must not depend on the sizes fitting the limits' own 32-bit type
		huge := i%30 == 17
		keys := make([][]byte, nkeys)
		for j := range keys {
			keys[j] = []byte{byte(rng.Intn(256)), byte(j)}
			if rng.Intn(3) == 0 {
				keys[j] = keys[j][1:]
			}
		}
		for s := 0; s < steps; s++ {
			k := keys[rng.Intn(nkeys)]
			switch x := rng.Intn(100); {
			case x < 55:
				sz := pick(rng, 0, 1, 1, 5, 10, 10, 40, 100, 500)
				if huge && s%4 == 1 {
					sz = 4294967296 + pick(rng, 0, 0, 1, 3, 39, 4294967296)
				}
				op := "hoa"
				if rng.Intn(5) == 0 {
					op = "put"
				}
				h = append(h, fmt.Sprintf("%s %s %02x%02x %d", op, hx(k), s, rng.Intn(256), sz))
			case x < 70:
				h = append(h, "rm "+hx(k))
			case x < 97:
				cnt := 1 + rng.Intn(3)
				if rng.Intn(10) == 0 {
					cnt = 5 + rng.Intn(4)
				}
				var ks []string
				for c := 0; c < cnt; c++ {
					ks = append(ks, hx(keys[rng.Intn(nkeys)]))
				}
				h = append(h, "imm "+strings.Join(ks, ","))
			default:
				h = append(h, "clear")
			}
		}
		hs = append(hs, h)
	}
	hs = append(hs, skewedImmunizeBatches()...)
	if tier == "thorough" {
		hs = append(hs, exhaustiveImmunity()...)
	}
	return hs
}

// skewedImmunizeBatches: one ImmunizeKeys call whose keys fall almost all into ONE chunk (plus one key of the next chunk), on
// caches of several chunks; afterwards both chunks are filled until they evict: every key of the batch must have been
// routed to its own chunk and be protected there (present ones now, absent ones once they are added)
func skewedImmunizeBatches() [][]string {
	var hs [][]string
	for _, chunks := range []int{2, 4, 16} {
		buckets := make([][]string, chunks)
		for x := 0; x < 8192; x++ {
			k := []byte{byte(0xc0 + x>>8), byte(x)}
			c := int(fnv32go(string(k)) % uint32(chunks))
			buckets[c] = append(buckets[c], hx(k))
		}
		for variant := 0; variant < 2; variant++ {
			for c := 0; c < chunks-1 && c < 3; c++ {
				a, b := buckets[c], buckets[c+1]
				nSkew := 2*((9)/chunks+1) + 2 // more than the share a per-chunk pre-allocation would reserve for a batch of 9
				if nSkew > 8 {
					nSkew = 8
				}
				h := []string{fmt.Sprintf("begin immunity chunks=%d items=%d bytes=100000 n=%d cross=0", chunks, chunks*12, chunks)}
				h = append(h, fmt.Sprintf("hoa %s aa01 5", a[0]), fmt.Sprintf("hoa %s aa02 5", a[1]), fmt.Sprintf("hoa %s bb01 5", b[0]))
				batch := append([]string{}, a[:nSkew]...)
				if variant == 0 {
					batch = append(batch, b[0])
				} else {
					batch = append([]string{b[0]}, batch...)
				}
				h = append(h, "imm "+strings.Join(batch, ","))
				// the future-immune keys of the batch arrive
				for i := 2; i < nSkew; i++ {
					h = append(h, fmt.Sprintf("hoa %s aa%02x 5", a[i], i+1))
				}
				// fill both chunks well beyond their capacity
				for i := 0; i < 16; i++ {
					h = append(h, fmt.Sprintf("hoa %s cc%02x 5", b[1+i], i), fmt.Sprintf("hoa %s dd%02x 5", a[nSkew+i], i))
				}
				hs = append(hs, h)
			}
		}
	}
	return hs
}

// exhaustive: all histories of length <= 5 over 3 keys, single chunk, capacity 4 items (byte capacity 12), n=1
func exhaustiveImmunity() [][]string {
	alphabet := []string{}
	for _, k := range []string{"01", "02", "03"} {
		alphabet = append(alphabet, "hoa "+k+" aa 5", "rm "+k, "imm "+k)
	}
	alphabet = append(alphabet, "hoa 04 bb 5", "hoa 05 cc 1")
	var hs [][]string
	var rec func(prefix []string, depth int)
	rec = func(prefix []string, depth int) {
		if depth == 0 {
			h := append([]string{"begin immunity chunks=1 items=4 bytes=12 n=1 cross=0"}, prefix...)
			hs = append(hs, h)
			return
		}
		for _, a := range alphabet {
			rec(append(append([]string{}, prefix...), a), depth-1)
		}
	}
	rec(nil, 5)
	return hs
}
