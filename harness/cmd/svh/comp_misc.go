package main

import (
	"bytes"
	"errors"
	"fmt"
	"math/rand"
	"os"
	"path/filepath"
	"runtime"
	"sort"
	"strconv"
	"strings"
	"sync"
	"sync/atomic"
	"time"

	"github.com/multiversx/mx-chain-core-go/core"
	"github.com/multiversx/mx-chain-storage-go/fifocache"
	"github.com/multiversx/mx-chain-storage-go/leveldb"
	"github.com/multiversx/mx-chain-storage-go/lrucache"
	"github.com/multiversx/mx-chain-storage-go/lrucache/capacity"
	"github.com/multiversx/mx-chain-storage-go/memorydb"
	"github.com/multiversx/mx-chain-storage-go/storageCacherAdapter"
	"github.com/multiversx/mx-chain-storage-go/storageUnit"
	"github.com/multiversx/mx-chain-storage-go/testscommon"
	"github.com/multiversx/mx-chain-storage-go/timecache"
	"github.com/multiversx/mx-chain-storage-go/types"
)

// ---------------------------------------------------------------- adapter (C17)

type serVal struct{ b []byte }

func (s *serVal) GetSerialized() []byte  { return s.b }
func (s *serVal) SetSerialized(b []byte) { s.b = b }

type serFactory struct{}

func (serFactory) CreateEmpty() interface{} { return &serVal{} }
func (serFactory) IsInterfaceNil() bool     { return false }

type adapterComp struct{}

func init()                        { register("adapter", adapterComp{}) }
func (adapterComp) Parallel() bool { return true }

type adapterRunner struct {
	keyPen
	violBuf
	tagBuf
	a    types.Cacher
	mem  types.AdaptedSizedLRUCache
	db   types.Persister
	dir  string
	vals map[string][]byte // every key put and not removed since ↦ its (immutable) value
	ever map[string]bool   // every key ever used
	held []heldVal         // the caller keeps what the last few Gets returned: each must stay its key's value
}

type heldVal struct {
	key  string
	obj  interface{}
	want []byte
}

func (adapterComp) NewRunner(begin string) Runner {
	kv := parseKV(strings.Fields(begin))
	r := &adapterRunner{vals: map[string][]byte{}, ever: map[string]bool{}}
	mem, err := capacity.NewCapacityLRU(int(atou(kv["cap"])), int64(atou(kv["bytes"])))
	if err != nil {
		panic(err)
	}
	r.mem = mem
	if kv["db"] == "leveldb" {
		r.dir = filepath.Join(scratchBase(), fmt.Sprintf("svh-adapter-%d-%d", os.Getpid(), atomic.AddInt64(&persistDirCounter, 1)))
		r.db, err = leveldb.NewDB(r.dir, 3600, 2, 10)
		if err != nil {
			panic(err)
		}
	} else {
		r.db = memorydb.New()
	}
	r.a, err = storageCacherAdapter.NewStorageCacherAdapter(mem, r.db, serFactory{}, &testscommon.MarshalizerMock{})
	if err != nil {
		panic(err)
	}
	return r
}

func (r *adapterRunner) Close() {
	_ = r.db.Close()
	if r.dir != "" {
		_ = os.RemoveAll(r.dir)
	}
}

func (r *adapterRunner) dump() string {
	keys := r.mem.Keys()
	ks := make([][]byte, len(keys))
	for i, k := range keys {
		ks[i] = []byte(k.(string))
	}
	m := map[string][]byte{}
	r.db.RangeKeys(func(k, v []byte) bool { m[string(k)] = v; return true })
	// RangeKeys shows the flushed state only: overlay the persister's pending batch (puts and removals) by reading back
	for k := range r.ever {
		if v, err := r.db.Get([]byte(k)); err == nil {
			m[k] = v
		} else {
			delete(m, k)
		}
	}
	names := make([]string, 0, len(m))
	for k := range m {
		names = append(names, k)
	}
	sort.Strings(names)
	parts := make([]string, len(names))
	for i, k := range names {
		parts[i] = hx([]byte(k)) + "=" + hx(m[k])
	}
	return fmt.Sprintf("mem=%s db=[%s]", hexList(ks), strings.Join(parts, ","))
}

func asBytes(v interface{}) []byte {
	if s, ok := v.(*serVal); ok {
		return s.b
	}
	return nil
}

// C17 oracle: every key put so far is reported by Has and returned by Get with its value
func (r *adapterRunner) retrievable(where string) {
	for k, v := range r.vals {
		if !r.a.Has([]byte(k)) {
			r.add("C17", "lost-entry", fmt.Sprintf("%s: key %s no longer reported by Has", where, hx([]byte(k))))
			continue
		}
		// use Peek + persister instead of Get so that the oracle does not disturb recency
		if pv, ok := r.a.Peek([]byte(k)); ok {
			if !bytes.Equal(asBytes(pv), v) {
				r.add("C17", "wrong-value", where+" key "+hx([]byte(k)))
			}
		} else if dv, err := r.db.Get([]byte(k)); err != nil || !bytes.Equal(dv, v) {
			r.add("C17", "lost-entry", fmt.Sprintf("%s: key %s neither in memory nor in the persister", where, hx([]byte(k))))
		}
	}
}

// doPut runs Put (or the Put inside HasOrAdd) and checks the "leaves memory only via the persister" and flag clauses
func (r *adapterRunner) doPut(what string, k, v []byte, sz int, call func() bool) bool {
	before := map[string]bool{}
	for _, x := range r.mem.Keys() {
		before[x.(string)] = true
	}
	spilled := call()
	after := map[string]bool{}
	for _, x := range r.mem.Keys() {
		after[x.(string)] = true
	}
	left := 0
	for b := range before {
		if !after[b] {
			left++
			if _, err := r.db.Get([]byte(b)); err != nil {
				r.add("C17", "left-memory-unpersisted", fmt.Sprintf("after %s %s: key %s left the memory tier without being written to the persister", what, hx(k), hx([]byte(b))))
			}
		}
	}
	if spilled != (left > 0) {
		r.add("C17", "spilled-flag", fmt.Sprintf("after %s %s: returned %v, %d entries left the memory tier", what, hx(k), spilled, left))
	}
	if left > 0 {
		r.tag("spill")
	}
	return spilled
}

func (r *adapterRunner) Exec(line string) string {
	out := r.exec1(line)
	// a value handed out by Get belongs to the caller: later operations (a Get of another spilled key, say) must not change it
	for _, h := range r.held {
		if !bytes.Equal(asBytes(h.obj), h.want) {
			r.add("C17", "returned-value-changed-later", fmt.Sprintf("after %q: the value Get returned for key %s earlier (%s) now reads %s", line, hx([]byte(h.key)), hx(h.want), hx(asBytes(h.obj))))
		}
	}
	return out
}

func (r *adapterRunner) exec1(line string) string {
	t := strings.Fields(line)
	var k []byte
	if len(t) > 1 {
		k = r.k(unhx(t[1]))
		r.ever[string(k)] = true
	}
	switch t[0] {
	case "put":
		v := unhx(t[2])
		sz, _ := strconv.Atoi(t[3])
		spilled := r.doPut("put", k, v, sz, func() bool { return r.a.Put(k, &serVal{v}, sz) })
		r.vals[string(k)] = v
		r.retrievable("after put " + hx(k))
		return b01(spilled) + " | " + r.dump()
	case "hoa":
		v := unhx(t[2])
		sz, _ := strconv.Atoi(t[3])
		was := r.a.Has(k)
		var has bool
		spilled := r.doPut("hasOrAdd", k, v, sz, func() bool {
			var sp bool
			has, sp = r.a.HasOrAdd(k, &serVal{v}, sz)
			return sp
		})
		if has != was {
			r.add("C17", "hasoradd-flag", fmt.Sprintf("HasOrAdd %s: has=%v but Has said %v just before", hx(k), has, was))
		}
		if !was {
			r.vals[string(k)] = v
			r.tag("hoa-insert")
		}
		r.retrievable("after hasOrAdd " + hx(k))
		return b01(has) + b01(spilled) + " | " + r.dump()
	case "rm":
		r.a.Remove(k)
		delete(r.vals, string(k))
		r.retrievable("after remove " + hx(k))
		return r.dump()
	case "clear":
		r.a.Clear()
		// entries that lived only in the memory tier are gone by design: no obligation for them any more
		for x := range r.vals {
			if _, err := r.db.Get([]byte(x)); err != nil {
				delete(r.vals, x)
			}
		}
		r.retrievable("after clear")
		return r.dump()
	case "len":
		return strconv.Itoa(r.a.Len())
	case "keys":
		return sortedHexList(takeKeys(r.a.Keys()))
	case "get":
		v, ok := r.a.Get(k)
		if want, known := r.vals[string(k)]; known && (!ok || !bytes.Equal(asBytes(v), want)) {
			r.add("C17", "lost-entry", "get "+hx(k))
		}
		if !ok {
			return "none | " + r.dump()
		}
		r.held = append(r.held, heldVal{string(k), v, append([]byte{}, asBytes(v)...)})
		if len(r.held) > 4 {
			r.held = r.held[1:]
		}
		return "some:" + hx(asBytes(v)) + " | " + r.dump()
	case "has":
		return b01(r.a.Has(k)) + " | " + r.dump()
	case "peek":
		v, ok := r.a.Peek(k)
		if !ok {
			return "none | " + r.dump()
		}
		return "some:" + hx(asBytes(v)) + " | " + r.dump()
	}
	return "bad-op"
}

func (adapterComp) Gen(rng *rand.Rand, tier string) [][]string {
	nh, steps := 600, 50
	if tier == "thorough" {
		nh, steps = 3000, 90
	}
	var hs [][]string
	for i := 0; i < nh; i++ {
		db := "mem"
		if i%10 == 0 {
			db = "leveldb"
		}
		h := []string{fmt.Sprintf("begin adapter cap=%d bytes=%d db=%s", pick(rng, 1, 2, 3, 4), pick(rng, 1, 10, 25, 60, 100000), db)}
		nkeys := 3 + rng.Intn(6)
		for s := 0; s < steps; s++ {
			k := []byte{byte(0x20 + rng.Intn(nkeys))}
			// a third of the histories is Put/Get/Has/Peek only (the property's own vocabulary); the others also use the
			// adapter's remaining entry points (HasOrAdd = Has+Put, Remove, Clear, Len, Keys)
			x := rng.Intn(100)
			if i%3 != 0 && x >= 45 && x < 60 {
				switch y := rng.Intn(100); {
				case y < 55:
					h = append(h, fmt.Sprintf("hoa %s %02xee %d", hx(k), k[0], pick(rng, 0, 1, 5, 10, 10, 20, 30, 61, 1000)))
				case y < 75:
					h = append(h, "rm "+hx(k))
				case y < 80:
					h = append(h, "clear")
				case y < 90:
					h = append(h, "len")
				default:
					// Keys() asks the persister's RangeKeys, which (for LevelDB) shows the flushed state only: compared on memorydb
					if db == "mem" {
						h = append(h, "keys")
					} else {
						h = append(h, "len")
					}
				}
				continue
			}
			switch {
			case x < 60:
				// each key is bound to one immutable value; sizes vary between puts (re-puts with a larger size)
				h = append(h, fmt.Sprintf("put %s %02xee %d", hx(k), k[0], pick(rng, 0, 1, 5, 10, 10, 20, 30, 61, 1000)))
			case x < 80:
				h = append(h, "get "+hx(k))
			case x < 90:
				h = append(h, "has "+hx(k))
			default:
				h = append(h, "peek "+hx(k))
			}
		}
		hs = append(hs, h)
	}
	// declared sizes whose SUM leaves the range of the memory tier's byte counter (an `int64`): oracle-only histories (huge=1 —
	// the model counts in unbounded naturals and is not compared here; in the unchanged code the counter wraps and the byte bound
	// stops being enforced, which is outside what C15/C17 state): whatever the tier does with such entries, none may be LOST
	for _, sz := range [][2]string{{"9223372036854775807", "1"}, {"4611686018427387904", "4611686018427387904"}, {"9223372036854775807", "9223372036854775807"}, {"1", "9223372036854775807"}} {
		for _, db := range []string{"mem", "leveldb"} {
			hs = append(hs, []string{fmt.Sprintf("begin adapter cap=10 bytes=1000 db=%s huge=1", db),
				"put 21 21ee " + sz[0], "has 21", "put 22 22ee " + sz[1], "has 21", "has 22", "get 22", "get 21",
				"put 23 23ee 10", "get 21", "get 22", "get 23", "put 21 21ee 5", "get 21", "has 22"})
		}
	}
	if tier == "thorough" {
		// exhaustive: all histories of length 6 over 3 keys x {put small, put large, hoa, get} + rm of one key, memory tier of 2 items / 12 bytes
		var alphabet []string
		for _, k := range []string{"21", "22", "23"} {
			alphabet = append(alphabet, "put "+k+" "+k+"ee 2", "put "+k+" "+k+"ee 11", "hoa "+k+" "+k+"ee 5", "get "+k)
		}
		alphabet = append(alphabet, "rm 21")
		var rec func(prefix []string, depth int)
		rec = func(prefix []string, depth int) {
			if depth == 0 {
				hs = append(hs, append([]string{"begin adapter cap=2 bytes=12 db=mem"}, prefix...))
				return
			}
			for _, a := range alphabet {
				rec(append(append([]string{}, prefix...), a), depth-1)
			}
		}
		rec(nil, 5)
	}
	return hs
}

// ---------------------------------------------------------------- storage unit (C16)

type faultyPersister struct {
	types.Persister
	failNext bool
}

var errInjected = errors.New("injected persister fault")

func (f *faultyPersister) Put(k, v []byte) error {
	if f.failNext {
		f.failNext = false
		return errInjected
	}
	return f.Persister.Put(k, v)
}
func (f *faultyPersister) Get(k []byte) ([]byte, error) {
	if f.failNext {
		f.failNext = false
		return nil, errInjected
	}
	return f.Persister.Get(k)
}
func (f *faultyPersister) Remove(k []byte) error {
	if f.failNext {
		f.failNext = false
		return errInjected
	}
	return f.Persister.Remove(k)
}

type unitComp struct{}

func init()                     { register("unit", unitComp{}) }
func (unitComp) Parallel() bool { return true }

type unitRunner struct {
	keyPen
	reads int
	violBuf
	tagBuf
	u    *storageUnit.Unit
	c    types.Cacher
	p    *faultyPersister
	dir  string
	ack  map[string][]byte // acknowledged writes (C16 oracle)
	last string
	keys map[string]bool
}

func (unitComp) NewRunner(begin string) Runner {
	kv := parseKV(strings.Fields(begin))
	r := &unitRunner{ack: map[string][]byte{}, keys: map[string]bool{}}
	var err error
	cp := int(atou(kv["cap"]))
	switch kv["cache"] {
	case "lru":
		r.c, err = lrucache.NewCache(cp)
	case "sizelru":
		r.c, err = lrucache.NewCacheWithSizeInBytes(cp, int64(atou(kv["bytes"])))
	case "fifo":
		r.c, err = fifocache.NewShardedCache(cp, int(atou(kv["shards"])))
	}
	if err != nil {
		panic(err)
	}
	var base types.Persister
	switch kv["db"] {
	case "leveldb":
		r.dir = filepath.Join(scratchBase(), fmt.Sprintf("svh-unit-%d-%d", os.Getpid(), atomic.AddInt64(&persistDirCounter, 1)))
		base, err = leveldb.NewDB(r.dir, 3600, int(atou(kv["batch"])), 10)
	case "serial":
		r.dir = filepath.Join(scratchBase(), fmt.Sprintf("svh-unit-%d-%d", os.Getpid(), atomic.AddInt64(&persistDirCounter, 1)))
		base, err = leveldb.NewSerialDB(r.dir, 3600, int(atou(kv["batch"])), 10)
	default:
		base = memorydb.New()
	}
	if err != nil {
		panic(err)
	}
	r.p = &faultyPersister{Persister: base}
	r.u, err = storageUnit.NewStorageUnit(r.c, r.p)
	if err != nil {
		panic(err)
	}
	return r
}

func (r *unitRunner) Close() {
	_ = r.p.Persister.Close()
	if r.dir != "" {
		_ = os.RemoveAll(r.dir)
	}
}

func (r *unitRunner) LastLine() string { l := r.last; r.last = ""; return l }

// observed cache content, and the coherence check of C16: the cache never holds a value the persister does not hold
func (r *unitRunner) cacheContent(where string) (string, string) {
	keys := takeKeys(r.c.Keys())
	sort.Slice(keys, func(i, j int) bool { return bytes.Compare(keys[i], keys[j]) < 0 })
	parts := make([]string, 0, len(keys))
	names := make([]string, 0, len(keys))
	for _, k := range keys {
		v, ok := r.c.Peek(k)
		if !ok {
			continue
		}
		b, _ := v.([]byte)
		parts = append(parts, hx(k)+"="+hx(b))
		names = append(names, hx(k))
		pv, err := r.p.Persister.Get(k)
		if err != nil || !bytes.Equal(pv, b) {
			r.add("C16", "cache-incoherent", fmt.Sprintf("%s: cache serves %s=%s, persister holds %s (err=%v)", where, hx(k), hx(b), hx(pv), err))
		}
	}
	return "cache=[" + strings.Join(parts, ",") + "]", strings.Join(names, ",")
}

func (r *unitRunner) Exec(line string) string {
	t := strings.Fields(line)
	base := []string{}
	for _, x := range t {
		if !strings.HasPrefix(x, "keep=") {
			base = append(base, x)
		}
	}
	finish := func(res string, where string) string {
		dump, keep := r.cacheContent(where)
		r.last = strings.Join(base, " ") + " keep=" + keep
		return res + " | " + dump
	}
	switch t[0] {
	case "put":
		k, v := r.k(unhx(t[1])), unhx(t[2])
		r.keys[string(k)] = true
		r.p.failNext = t[3] == "1"
		err := r.u.Put(k, v)
		r.p.failNext = false
		if (err != nil) != (t[3] == "1") {
			r.add("C16", "put-error", "put "+hx(k))
		}
		if err == nil {
			r.ack[string(k)] = v
			r.tag("put-ok")
		} else {
			r.tag("put-rejected")
			// the rejected value must not be served afterwards
			if got, ok := r.c.Peek(k); ok {
				if b, _ := got.([]byte); bytes.Equal(b, v) && !bytes.Equal(r.ack[string(k)], v) {
					r.add("C16", "rejected-value-served", "after rejected put "+hx(k))
				}
			}
		}
		res := "ok"
		if err != nil {
			res = "err"
		}
		return finish(res, "after put "+hx(k))
	case "get":
		k := r.k(unhx(t[1]))
		r.keys[string(k)] = true
		_, cached := r.c.Peek(k)
		r.p.failNext = t[2] == "1"
		// Get, GetFromEpoch and SearchFirst are the same read path of the unit: rotate through them
		var v []byte
		var err error
		r.reads++
		switch r.reads % 3 {
		case 0:
			v, err = r.u.Get(k)
		case 1:
			v, err = r.u.GetFromEpoch(k, uint32(r.reads))
		default:
			v, err = r.u.SearchFirst(k)
		}
		r.p.failNext = false
		want, ok := r.ack[string(k)]
		faulted := t[2] == "1" && !cached
		if !faulted && (ok != (err == nil) || (ok && !bytes.Equal(v, want))) {
			r.add("C16", "get-mismatch", fmt.Sprintf("get %s returned %s err=%v, acknowledged %s present=%v", hx(k), hx(v), err, hx(want), ok))
		}
		if cached {
			r.tag("get-hit")
		} else {
			r.tag("get-miss")
		}
		res := "!"
		if err == nil {
			res = hx(v)
		}
		return finish(res, "after get "+hx(k))
	case "has":
		k := r.k(unhx(t[1]))
		err := r.u.Has(k)
		_, ok := r.ack[string(k)]
		if ok != (err == nil) {
			r.add("C16", "has-mismatch", "has "+hx(k))
		}
		r.last = strings.Join(base, " ")
		return b01(err == nil)
	case "rm":
		k := r.k(unhx(t[1]))
		r.p.failNext = t[2] == "1"
		err := r.u.Remove(k)
		r.p.failNext = false
		if err == nil {
			delete(r.ack, string(k))
			if r.u.Has(k) == nil {
				r.add("C16", "remove-incomplete", "after rm "+hx(k))
			}
		}
		res := "ok"
		if err != nil {
			res = "err"
		}
		return finish(res, "after rm "+hx(k))
	case "clearcache":
		r.u.ClearCache()
		return finish("", "after clearcache")[1:]
	case "bulk":
		var keys [][]byte
		for _, x := range strings.Split(t[1], ",") {
			if x != "" {
				keys = append(keys, unhx(x))
			}
		}
		res, _ := r.u.GetBulkFromEpoch(keys, 0)
		parts := make([]string, len(res))
		for i, kvp := range res {
			parts[i] = hx(kvp.Key) + "=" + hx(kvp.Value)
		}
		n := 0
		for _, k := range keys {
			if _, ok := r.ack[string(k)]; ok {
				n++
			}
		}
		if n != len(res) {
			r.add("C16", "bulk-mismatch", "bulk")
		}
		return finish("["+strings.Join(parts, ",")+"]", "after bulk")
	}
	return "bad-op"
}

func (unitComp) Gen(rng *rand.Rand, tier string) [][]string {
	nh, steps := 600, 50
	if tier == "thorough" {
		nh, steps = 3000, 90
	}
	var hs [][]string
	for i := 0; i < nh; i++ {
		cache := pick(rng, "lru", "sizelru", "fifo")
		db := "mem"
		if i%8 == 0 {
			db = pick(rng, "leveldb", "serial")
		}
		cp := pick(rng, 1, 2, 3, 4)
		shards := 1
		if cache == "fifo" {
			cp = pick(rng, 2, 3, 4, 6)
			shards = pick(rng, 1, 1, 2)
			if cp < 2*shards {
				cp = 2 * shards
			}
		}
		h := []string{fmt.Sprintf("begin unit cache=%s cap=%d bytes=%d shards=%d db=%s batch=%d", cache, cp, pick(rng, 1, 4, 8, 1024), shards, db, pick(rng, 1, 2, 3))}
		nkeys := 3 + rng.Intn(5)
		for s := 0; s < steps; s++ {
			k := []byte{byte(0x30 + rng.Intn(nkeys))}
			fail := b01(rng.Intn(6) == 0 && db == "mem")
			switch x := rng.Intn(100); {
			case x < 40:
				if rng.Intn(8) == 0 {
					// an empty value is a value: acknowledged, served from either layer, found by Has and the bulk read
					h = append(h, fmt.Sprintf("put %s - %s", hx(k), fail))
				} else {
					h = append(h, fmt.Sprintf("put %s %02x%02x %s", hx(k), s%256, rng.Intn(4), fail))
				}
			case x < 70:
				h = append(h, fmt.Sprintf("get %s %s", hx(k), fail))
			case x < 80:
				h = append(h, "has "+hx(k))
			case x < 92:
				h = append(h, fmt.Sprintf("rm %s %s", hx(k), fail))
			case x < 95:
				h = append(h, "clearcache")
			default:
				var ks []string
				for j := 0; j < 1+rng.Intn(3); j++ {
					ks = append(ks, hx([]byte{byte(0x30 + rng.Intn(nkeys))}))
				}
				h = append(h, "bulk "+strings.Join(ks, ","))
			}
		}
		hs = append(hs, h)
	}
	if tier == "thorough" {
		// exhaustive: all histories of length 6 over 2 keys x {put ok, put rejected, get, get failing, rm, rm rejected} + clearcache,
		// for each cacher the factory builds at capacity 1 (every overwrite, eviction, refill and fault interleaving up to that length)
		var alphabet []string
		for _, k := range []string{"31", "32"} {
			alphabet = append(alphabet, "put "+k+" aa"+k+" 0", "put "+k+" bb"+k+" 1", "get "+k+" 0", "get "+k+" 1", "rm "+k+" 0", "rm "+k+" 1")
		}
		alphabet = append(alphabet, "clearcache")
		for _, begin := range []string{"begin unit cache=lru cap=1 bytes=1024 shards=1 db=mem batch=1", "begin unit cache=sizelru cap=1 bytes=4 shards=1 db=mem batch=1", "begin unit cache=fifo cap=2 bytes=1 shards=1 db=mem batch=1"} {
			var rec func(prefix []string, depth int)
			rec = func(prefix []string, depth int) {
				if depth == 0 {
					hs = append(hs, append([]string{begin}, prefix...))
					return
				}
				for _, a := range alphabet {
					rec(append(append([]string{}, prefix...), a), depth-1)
				}
			}
			rec(nil, 5)
		}
	}
	return hs
}

// ---------------------------------------------------------------- fifo (C20)

type fifoComp struct{}

func init()                     { register("fifo", fifoComp{}) }
func (fifoComp) Parallel() bool { return true }

type fifoRunner struct {
	keyPen
	violBuf
	tagBuf
	c        *fifocache.FIFOShardedCache
	size, n  int
	mu       sync.Mutex
	inv      []string
	handlers map[string]bool
	// C20 oracle: insertions per shard since each resident key was inserted
	age   map[string]int
	vals  map[string][]byte
	order []string // single shard: insertion order of residents
}

func fnv32go(key string) uint32 {
	h := uint32(2166136261)
	for i := 0; i < len(key); i++ {
		h *= 16777619
		h ^= uint32(key[i])
	}
	return h
}

func (fifoComp) NewRunner(begin string) Runner {
	kv := parseKV(strings.Fields(begin))
	r := &fifoRunner{size: int(atou(kv["size"])), n: int(atou(kv["shards"])), handlers: map[string]bool{}, age: map[string]int{}, vals: map[string][]byte{}}
	c, err := fifocache.NewShardedCache(r.size, r.n)
	if err != nil {
		panic(err)
	}
	r.c = c
	return r
}
func (r *fifoRunner) Close() {}

func (r *fifoRunner) collect(want int) string {
	deadline := time.Now().Add(10 * time.Second)
	for {
		r.mu.Lock()
		n := len(r.inv)
		r.mu.Unlock()
		if n >= want || time.Now().After(deadline) {
			break
		}
		runtime.Gosched()
	}
	for i := 0; i < 30; i++ {
		runtime.Gosched()
	}
	r.mu.Lock()
	got := append([]string{}, r.inv...)
	r.inv = nil
	r.mu.Unlock()
	sort.Strings(got)
	return "h=[" + strings.Join(got, ",") + "]"
}

func (r *fifoRunner) dump() string {
	keys := takeKeys(r.c.Keys())
	if r.n != 1 {
		return fmt.Sprintf("keys=%s len=%d", sortedHexList(keys), r.c.Len())
	}
	return fmt.Sprintf("keys=%s len=%d", hexList(keys), r.c.Len())
}

func (r *fifoRunner) shardOf(k string) int { return int(fnv32go(k) % uint32(r.n)) }

func (r *fifoRunner) slots() int {
	m := r.size / r.n
	if m == 0 {
		m = 1
	}
	if r.size%r.n != 0 {
		m++
	}
	return m
}

// after an insertion of k: ages of the other residents of the shard grow; residency guarantee and bounds
func (r *fifoRunner) inserted(k string, v []byte, where string) {
	sh := r.shardOf(k)
	for o := range r.age {
		if o != k && r.shardOf(o) == sh {
			r.age[o]++
		}
	}
	r.age[k] = 0
	r.vals[k] = v
	if r.n == 1 {
		var no []string
		for _, o := range r.order {
			if o != k {
				no = append(no, o)
			}
		}
		r.order = append(no, k)
	}
	r.checkAfter(where, k)
}

func (r *fifoRunner) checkAfter(where, just string) {
	res := map[string]bool{}
	for _, k := range takeKeys(r.c.Keys()) {
		res[string(k)] = true
	}
	if len(res) > r.size {
		r.add("C20", "over-size", fmt.Sprintf("%s: %d entries > size %d", where, len(res), r.size))
	}
	if just != "" && !res[just] {
		r.add("C20", "just-inserted-missing", where)
	}
	guarantee := (r.size+r.n-1)/r.n - 2
	for k, a := range r.age {
		if !res[k] {
			if a <= guarantee {
				// the a-th further insertion into its shard dropped it: it did not survive ⌈S/N⌉−2 further insertions
				// (the reading of `survives_guaranteed_insertions`: still resident after ⌈S/N⌉−2 of them)
				r.add("C20", "dropped-too-early", fmt.Sprintf("%s: key %s was dropped by further insertion no. %d into its shard (guaranteed to survive %d)", where, hx([]byte(k)), a, guarantee))
			}
			delete(r.age, k)
			delete(r.vals, k)
			r.tag("evicted")
		}
	}
	if r.c.Len() != len(res) {
		r.add("C20", "len-vs-keys", where)
	}
	for k := range res {
		v, ok := r.c.Get([]byte(k))
		pv, pok := r.c.Peek([]byte(k))
		if !ok || !pok || !r.c.Has([]byte(k)) || !bytes.Equal(v.([]byte), pv.([]byte)) {
			r.add("C20", "views-disagree", where+" key "+hx([]byte(k)))
		} else if want, known := r.vals[k]; known && !bytes.Equal(v.([]byte), want) {
			r.add("C20", "value-mismatch", where+" key "+hx([]byte(k)))
		}
	}
	if r.n == 1 {
		// strict insertion order: residents = the youngest ones of `order`
		var exp []string
		for _, o := range r.order {
			if res[o] {
				exp = append(exp, o)
			}
		}
		got := takeKeys(r.c.Keys())
		ok := len(got) == len(exp)
		for i := 0; ok && i < len(got); i++ {
			ok = string(got[i]) == exp[i]
		}
		// evicted ones must all be older than every resident
		seenRes := false
		for _, o := range r.order {
			if res[o] {
				seenRes = true
			} else if seenRes {
				ok = false
			}
		}
		if !ok {
			r.add("C20", "not-fifo", fmt.Sprintf("%s: Keys=%s", where, hexList(got)))
		}
		r.order = exp
	}
}

func (r *fifoRunner) expectHandlers(got string, k, v []byte, inserted bool, where string) {
	var exp []string
	if inserted {
		for id := range r.handlers {
			exp = append(exp, id+":"+hx(k)+":"+hx(v))
		}
	}
	sort.Strings(exp)
	if got != "h=["+strings.Join(exp, ",")+"]" {
		r.add("C20", "handlers", fmt.Sprintf("%s: invocations %s, expected %v", where, got, exp))
	}
}

func (r *fifoRunner) Exec(line string) string {
	t := strings.Fields(line)
	switch t[0] {
	case "put":
		k, v := r.k(unhx(t[1])), unhx(t[2])
		r.c.Put(k, v, 0)
		h := r.collect(len(r.handlers))
		r.expectHandlers(h, k, v, true, "put "+hx(k))
		r.inserted(string(k), v, "after put "+hx(k))
		return "| " + r.dump() + " | " + h
	case "hoa":
		k, v := r.k(unhx(t[1])), unhx(t[2])
		was := r.c.Has(k)
		has, added := r.c.HasOrAdd(k, v, 0)
		want := 0
		if !was {
			want = len(r.handlers)
		}
		h := r.collect(want)
		if has != was || added != !was {
			r.add("C20", "hasoradd-flags", fmt.Sprintf("hoa %s: has=%v added=%v, present before=%v", hx(k), has, added, was))
		}
		r.expectHandlers(h, k, v, !was, "hoa "+hx(k))
		if !was {
			r.inserted(string(k), v, "after hoa "+hx(k))
		} else {
			r.checkAfter("after hoa "+hx(k), "")
		}
		return b01(has) + " " + b01(added) + " | " + r.dump() + " | " + h
	case "get":
		k := r.k(unhx(t[1]))
		v, ok := r.c.Get(k)
		pv, pok := r.c.Peek(k)
		// the views agree for absent keys too: what Get or Peek serve, Has reports (and the reverse)
		if has := r.c.Has(k); ok != has || pok != has || (ok && pok && !bytes.Equal(v.([]byte), pv.([]byte))) {
			r.add("C20", "views-disagree", fmt.Sprintf("get %s: Get found=%v Peek found=%v Has=%v", hx(k), ok, pok, has))
		}
		if !ok {
			return "none | " + r.dump()
		}
		return "some:" + hx(v.([]byte)) + " | " + r.dump()
	case "rm":
		k := r.k(unhx(t[1]))
		r.c.Remove(k)
		delete(r.age, string(k))
		delete(r.vals, string(k))
		if r.n == 1 {
			var no []string
			for _, o := range r.order {
				if o != string(k) {
					no = append(no, o)
				}
			}
			r.order = no
		}
		r.checkAfter("after rm "+hx(k), "")
		return "| " + r.dump()
	case "clear":
		r.c.Clear()
		r.age = map[string]int{}
		r.vals = map[string][]byte{}
		r.order = nil
		r.checkAfter("after clear", "")
		return "| " + r.dump()
	case "reg":
		id := t[1]
		r.c.RegisterHandler(func(key []byte, value interface{}) {
			b, _ := value.([]byte)
			r.mu.Lock()
			r.inv = append(r.inv, id+":"+hx(key)+":"+hx(b))
			r.mu.Unlock()
		}, id)
		r.handlers[id] = true
		return "ok"
	case "unreg":
		r.c.UnRegisterHandler(t[1])
		delete(r.handlers, t[1])
		return "ok"
	}
	return "bad-op"
}

func (fifoComp) Gen(rng *rand.Rand, tier string) [][]string {
	nh, steps := 600, 60
	if tier == "thorough" {
		nh, steps = 3000, 100
	}
	var hs [][]string
	for i := 0; i < nh; i++ {
		n := pick(rng, 1, 1, 1, 2, 3, 4)
		size := n * pick(rng, 2, 2, 3, 4, 5)
		if rng.Intn(3) == 0 {
			size += rng.Intn(n)
		}
		h := []string{fmt.Sprintf("begin fifo size=%d shards=%d", size, n)}
		nkeys := 3 + rng.Intn(8)
		for s := 0; s < steps; s++ {
			k := []byte{byte(0x40 + rng.Intn(nkeys)), byte(rng.Intn(2))}
			val := fmt.Sprintf("%02x%02x", s%256, rng.Intn(256))
			switch x := rng.Intn(100); {
			case x < 45:
				h = append(h, fmt.Sprintf("put %s %s", hx(k), val))
			case x < 65:
				h = append(h, fmt.Sprintf("hoa %s %s", hx(k), val))
			case x < 75:
				h = append(h, "get "+hx(k))
			case x < 88:
				h = append(h, "rm "+hx(k))
			case x < 90:
				h = append(h, "clear")
			case x < 96:
				h = append(h, fmt.Sprintf("reg h%d", rng.Intn(3)))
			default:
				h = append(h, fmt.Sprintf("unreg h%d", rng.Intn(3)))
			}
		}
		hs = append(hs, h)
	}
	if tier == "thorough" {
		// exhaustive: all histories of length 6 over 4 keys, one shard, size 3
		var alphabet []string
		for _, k := range []string{"01", "02", "03", "04"} {
			alphabet = append(alphabet, "put "+k+" aa", "hoa "+k+" bb", "rm "+k)
		}
		var rec func(prefix []string, depth int)
		rec = func(prefix []string, depth int) {
			if depth == 0 {
				hs = append(hs, append([]string{"begin fifo size=3 shards=1"}, prefix...))
				return
			}
			for _, a := range alphabet {
				rec(append(append([]string{}, prefix...), a), depth-1)
			}
		}
		rec(nil, 5)
	}
	return hs
}

// ---------------------------------------------------------------- time caches (C18)

type timeComp struct{}

func init()                     { register("timecache", timeComp{}) }
func (timeComp) Parallel() bool { return true }

type tcIface interface {
	add(k string) error
	addSpan(k string, d time.Duration) error
	upsert(k string, d time.Duration) error
	put(k string, v []byte)
	hoa(k string, v []byte) (bool, bool)
	rm(k string)
	sweep()
	has(k string) bool
	clear()
	close()
}

type tcPlain struct{ c *timecache.TimeCache }

func (t tcPlain) add(k string) error                      { return t.c.Add(k) }
func (t tcPlain) addSpan(k string, d time.Duration) error { return t.c.AddWithSpan(k, d) }
func (t tcPlain) upsert(k string, d time.Duration) error  { return t.c.Upsert(k, d) }
func (t tcPlain) put(k string, v []byte)                  { _ = t.c.Add(k) }
func (t tcPlain) hoa(k string, v []byte) (bool, bool)     { return false, false }
func (t tcPlain) rm(k string)                             {}
func (t tcPlain) sweep()                                  { t.c.Sweep() }
func (t tcPlain) has(k string) bool                       { return t.c.Has(k) }
func (t tcPlain) clear()                                  {}
func (t tcPlain) close()                                  {}

type tcPeer struct {
	c    *timecache.TimeCache
	peer interface {
		Upsert(pid core.PeerID, duration time.Duration) error
		Sweep()
		Has(pid core.PeerID) bool
	}
}

func (t tcPeer) add(k string) error                      { return t.c.Add(k) }
func (t tcPeer) addSpan(k string, d time.Duration) error { return t.c.AddWithSpan(k, d) }
func (t tcPeer) upsert(k string, d time.Duration) error  { return t.peer.Upsert(core.PeerID(k), d) }
func (t tcPeer) put(k string, v []byte)                  { _ = t.c.Add(k) }
func (t tcPeer) hoa(k string, v []byte) (bool, bool)     { return false, false }
func (t tcPeer) rm(k string)                             {}
func (t tcPeer) sweep()                                  { t.peer.Sweep() }
func (t tcPeer) has(k string) bool                       { return t.peer.Has(core.PeerID(k)) }
func (t tcPeer) clear()                                  {}
func (t tcPeer) close()                                  {}

type tcCacher struct{ c types.Cacher }

// kb: the caller's key buffer for ONE call; it is overwritten as soon as the call has returned (a caller is free to reuse its
// buffer: the cacher must not keep a reference to it)
func kb(k string) ([]byte, func()) {
	b := []byte(k)
	return b, func() {
		for i := range b {
			b[i] ^= 0xa5
		}
	}
}

func (t tcCacher) add(k string) error { b, done := kb(k); defer done(); t.c.Put(b, []byte{}, 0); return nil }
func (t tcCacher) addSpan(k string, d time.Duration) error {
	b, done := kb(k)
	defer done()
	t.c.Put(b, []byte{}, 0)
	return nil
}
func (t tcCacher) upsert(k string, d time.Duration) error {
	b, done := kb(k)
	defer done()
	t.c.Put(b, []byte{}, 0)
	return nil
}
func (t tcCacher) put(k string, v []byte) { b, done := kb(k); defer done(); t.c.Put(b, v, 0) }
func (t tcCacher) hoa(k string, v []byte) (bool, bool) {
	b, done := kb(k)
	defer done()
	return t.c.HasOrAdd(b, v, 0)
}
func (t tcCacher) rm(k string)       { b, done := kb(k); defer done(); t.c.Remove(b) }
func (t tcCacher) sweep()            {}
func (t tcCacher) has(k string) bool { b, done := kb(k); defer done(); return t.c.Has(b) }
func (t tcCacher) clear()                              { t.c.Clear() }
func (t tcCacher) close()                              { _ = t.c.Close() }

type timeRunner struct {
	violBuf
	tagBuf
	kind    string
	c       tcIface
	start   time.Time
	defSpan time.Duration
	last    string
	// C18 oracle (independent of the Lean model): per key latest refresh bracket + span; sweeps since
	ent map[string]*tcEnt
}

type tcEnt struct {
	lo, hi   int64 // bracket of the latest add/upsert reading
	spanMin  int64 // span is certain here (we always know it when the key is certainly present)
	certain  bool  // key certainly present at the time of the refresh
	possibly bool
}

func (timeComp) NewRunner(begin string) Runner {
	kv := parseKV(strings.Fields(begin))
	r := &timeRunner{kind: kv["kind"], defSpan: time.Duration(atou(kv["span"])), start: time.Now(), ent: map[string]*tcEnt{}}
	switch r.kind {
	case "tc":
		r.c = tcPlain{timecache.NewTimeCache(r.defSpan)}
	case "peer":
		tc := timecache.NewTimeCache(r.defSpan)
		p, err := timecache.NewPeerTimeCache(tc)
		if err != nil {
			panic(err)
		}
		r.c = tcPeer{tc, p}
	case "cacher":
		exp := time.Hour
		if kv["expiry"] != "" {
			exp = time.Duration(atou(kv["expiry"]))
		}
		c, err := timecache.NewTimeCacher(timecache.ArgTimeCacher{DefaultSpan: r.defSpan, CacheExpiry: exp})
		if err != nil {
			panic(err)
		}
		r.c = tcCacher{c}
	}
	return r
}

func (r *timeRunner) Close()           { r.c.close() }
func (r *timeRunner) LastLine() string { l := r.last; r.last = ""; return l }
func (r *timeRunner) now() int64       { return int64(time.Since(r.start)) }

func (r *timeRunner) Exec(line string) string {
	t := strings.Fields(line)
	// strip previously recorded readings (replay): op args are the first tokens
	switch t[0] {
	case "add", "addspan", "upsert", "put", "hoa":
		k := string(unhx(t[1]))
		span := r.defSpan
		if t[2] != "-" {
			span = time.Duration(atou(t[2]))
		}
		val := []byte{}
		if t[3] != "-" {
			val = unhx(t[3])
		}
		lo := r.now()
		out := "ok"
		switch t[0] {
		case "add":
			_ = r.c.add(k)
		case "addspan":
			_ = r.c.addSpan(k, span)
		case "upsert":
			_ = r.c.upsert(k, span)
		case "put":
			r.c.put(k, val)
		case "hoa":
			has, added := r.c.hoa(k, val)
			out = b01(has) + " " + b01(added)
		}
		hi := r.now()
		spanUsed := int64(span)
		if t[0] == "add" || t[0] == "put" || t[0] == "hoa" || r.kind == "cacher" {
			spanUsed = int64(r.defSpan)
		}
		r.last = fmt.Sprintf("%s %s %d %s %d %d", t[0], t[1], spanUsed, t[3], lo, hi)
		// independent oracle bookkeeping
		e := r.ent[k]
		switch t[0] {
		case "add", "addspan", "put":
			r.ent[k] = &tcEnt{lo: lo, hi: hi, spanMin: spanUsed, certain: true, possibly: true}
		case "upsert":
			if r.kind == "cacher" {
				r.ent[k] = &tcEnt{lo: lo, hi: hi, spanMin: spanUsed, certain: true, possibly: true}
			} else if e != nil && e.certain {
				if spanUsed > e.spanMin {
					e.spanMin = spanUsed
				}
				e.lo, e.hi = lo, hi
			} else {
				// possibly absent before: the span is at least the given one
				r.ent[k] = &tcEnt{lo: lo, hi: hi, spanMin: spanUsed, certain: true, possibly: true}
			}
		case "hoa":
			if e == nil || !e.possibly {
				r.ent[k] = &tcEnt{lo: lo, hi: hi, spanMin: spanUsed, certain: true, possibly: true}
			}
		}
		return out
	case "sweep":
		lo := r.now()
		r.c.sweep()
		hi := r.now()
		r.last = fmt.Sprintf("sweep %d %d", lo, hi)
		for _, e := range r.ent {
			// certainly still present only if even the latest possible sweep reading minus the earliest refresh is within span
			if hi-e.lo > e.spanMin {
				e.certain = false
			}
			if lo-e.hi > e.spanMin {
				e.possibly = false
			}
		}
		r.tag("sweep")
		return "ok"
	case "sweeprace":
		// schedules (C18 quantifies over them): an EXPIRED but not yet swept entry is refreshed by an Upsert while a Sweep is
		// running. Whichever of the two is served first, the key is present afterwards with the new span: refreshed first, the
		// sweep finds it young; swept first, the upsert adds it again. `nfill` expired filler entries give the sweep something
		// to walk over, the upsert is released at several offsets into that walk. For the model the whole step is ONE upsert
		// of a key it has never seen (the line is rewritten); the history goes on with a plain sweep.
		k := string(unhx(t[1]))
		nfill, _ := strconv.Atoi(t[2])
		trials, _ := strconv.Atoi(t[3])
		span := time.Hour
		lo := r.now()
		fill := func() {
			for i := 0; i < nfill; i++ {
				_ = r.c.addSpan(fmt.Sprintf("\xfe\xfffill-%d", i), time.Nanosecond)
			}
		}
		fill()
		time.Sleep(20 * time.Microsecond)
		t0 := time.Now()
		r.c.sweep()
		walk := time.Since(t0)
		out := "ok"
		for tr := 0; tr < trials && out == "ok"; tr++ {
			_ = r.c.addSpan(k, time.Nanosecond)
			fill()
			time.Sleep(20 * time.Microsecond)
			delay := walk * time.Duration(tr) / time.Duration(trials)
			start := make(chan struct{})
			var wg sync.WaitGroup
			wg.Add(2)
			go func() { defer wg.Done(); <-start; r.c.sweep() }()
			go func() {
				defer wg.Done()
				<-start
				for t1 := time.Now(); time.Since(t1) < delay; {
					runtime.Gosched()
				}
				_ = r.c.upsert(k, span)
			}()
			close(start)
			wg.Wait()
			if !r.c.has(k) {
				out = "lost"
				r.add("C18", "dropped-before-span", fmt.Sprintf("key %s was upserted with span %v while a sweep was running (it had expired before) and is absent afterwards (trial %d, upsert released %v into a sweep of about %v)", hx([]byte(k)), span, tr, delay, walk))
			}
		}
		hi := r.now()
		r.last = fmt.Sprintf("upsert %s %d - %d %d", t[1], int64(span), lo, hi)
		for _, e := range r.ent {
			if hi-e.lo > e.spanMin {
				e.certain = false
			}
		}
		r.ent[k] = &tcEnt{lo: lo, hi: hi, spanMin: int64(span), certain: out == "ok", possibly: true}
		r.tag("sweep-vs-upsert")
		return out
	case "rm":
		k := string(unhx(t[1]))
		r.c.rm(k)
		delete(r.ent, k)
		return "ok"
	case "clear":
		r.c.clear()
		r.ent = map[string]*tcEnt{}
		return "ok"
	case "sleep":
		time.Sleep(time.Duration(atou(t[1])))
		return "ok"
	case "has":
		k := string(unhx(t[1]))
		got := r.c.has(k)
		e := r.ent[k]
		// C18: present until the span has elapsed (no matter how many sweeps ran); removed by a sweep that started after it elapsed
		if e != nil && e.certain && !got {
			r.add("C18", "dropped-before-span", fmt.Sprintf("key %s reported absent although its span cannot have elapsed at any sweep", hx([]byte(k))))
		}
		if (e == nil || !e.possibly) && got {
			r.add("C18", "kept-after-sweep", fmt.Sprintf("key %s still present after a sweep that started after its span elapsed (or never added)", hx([]byte(k))))
		}
		if got {
			r.tag("has-true")
		} else {
			r.tag("has-false")
		}
		return b01(got)
	case "expectgone":
		k := string(unhx(t[1]))
		// liveness probe with a generous bound: the span elapsed long ago (the history slept well beyond it); the background
		// sweeper gets another 10 s of scheduling slack before the entry counts as "not removed without being asked"
		deadline := time.Now().Add(10 * time.Second)
		for r.c.has(k) && time.Now().Before(deadline) {
			time.Sleep(50 * time.Millisecond)
		}
		if r.c.has(k) {
			r.add("C18", "self-sweeper", fmt.Sprintf("key %s still present: the self-sweeping cacher did not remove an expired entry", hx([]byte(k))))
		}
		r.tag("self-sweep-probe")
		delete(r.ent, k)
		return "-"
	}
	return "bad-op"
}

func (timeComp) Gen(rng *rand.Rand, tier string) [][]string {
	nh := 48
	if tier == "thorough" {
		nh = 600
	}
	ms := int(time.Millisecond)
	var hs [][]string
	// directed: a sweep that leaves a long-lived survivor, then short-lived (re-)additions of other / the same key, then sweeps
	// after the short span has elapsed (any bookkeeping a sweep keeps about "nothing can expire before …" must see later adds)
	nDirected := 4
	if tier == "thorough" {
		nDirected = 32
	}
	for d := 0; d < nDirected; d++ {
		kind := []string{"tc", "tc", "peer", "tc"}[d%4]
		h := []string{fmt.Sprintf("begin timecache kind=%s span=%d", kind, 60*ms)}
		long := pick(rng, 3000, 5000) * ms
		short := pick(rng, 40, 60, 80) * ms
		h = append(h, fmt.Sprintf("upsert 0a %d -", long), "sweep", "has 0a")
		switch d % 4 {
		case 2:
			h = append(h, fmt.Sprintf("upsert 0b %d -", short))
		case 0:
			h = append(h, fmt.Sprintf("addspan 0b %d -", short))
		case 1:
			h = append(h, "add 0b - -", fmt.Sprintf("addspan 0a %d -", short)) // default span (60ms); the long-lived key is re-added with a short span
		case 3:
			h = append(h, fmt.Sprintf("addspan 0b %d -", short), "add 0a - -") // the long-lived key is re-added with the (short) default span
		}
		h = append(h, "has 0b", "sleep "+fmt.Sprint(250*ms), "sweep", "has 0b", "has 0a", "sleep "+fmt.Sprint(100*ms), "sweep", "has 0b", "has 0a")
		hs = append(hs, h)
	}
	// an Upsert with a span of zero (or below the stored one) on a present key: the span is unchanged, the countdown restarts
	for d, kind := range []string{"tc", "peer", "peer", "tc"} {
		h := []string{fmt.Sprintf("begin timecache kind=%s span=%d", kind, 60*ms)}
		h = append(h, fmt.Sprintf("upsert 0a %d -", 900*ms), "sleep "+fmt.Sprint(600*ms), fmt.Sprintf("upsert 0a %d -", (d%2)*20*ms),
			"sleep "+fmt.Sprint(500*ms), "sweep", "has 0a", "sleep "+fmt.Sprint(700*ms), "sweep", "has 0a")
		hs = append(hs, h)
	}
	// "keep for ever" spans (up to the largest Duration): the expiry arithmetic must not wrap
	for d, big := range []string{"9223372036854775807", "7884000000000000000", "9223372036854775806"} {
		kind := []string{"tc", "peer", "tc"}[d]
		h := []string{fmt.Sprintf("begin timecache kind=%s span=%d", kind, 60*ms)}
		h = append(h, fmt.Sprintf("upsert 0a %s -", big), "sweep", "has 0a")
		if kind == "tc" {
			h = append(h, fmt.Sprintf("addspan 0b %s -", big), "sweep", "has 0b")
		}
		h = append(h, fmt.Sprintf("upsert 0a %d -", 40*ms), "sleep "+fmt.Sprint(120*ms), "sweep", "has 0a", "has 0b")
		hs = append(hs, h)
	}
	// schedules: an upsert of an expired, unswept key racing a sweep over a large cache
	nRace := 2
	if tier == "thorough" {
		nRace = 12
	}
	for d := 0; d < nRace; d++ {
		kind := pick(rng, "tc", "peer")
		h := []string{fmt.Sprintf("begin timecache kind=%s span=%d", kind, 60*ms)}
		h = append(h, fmt.Sprintf("upsert 0a %d -", 5000*ms), fmt.Sprintf("sweeprace 0e %d 8", pick(rng, 5000, 20000, 50000)), "has 0e", "sweep", "has 0e", "has 0a")
		hs = append(hs, h)
	}
	for i := 0; i < nh; i++ {
		kind := pick(rng, "tc", "tc", "peer", "cacher")
		if kind == "cacher" {
			// minimum span 1s: a short history with real waiting
			h := []string{fmt.Sprintf("begin timecache kind=cacher span=%d expiry=%d", 1000*ms, 1000*ms)}
			h = append(h, "put 0a - aa", "hoa 0b - bb", "has 0a", "has 0b", "hoa 0a - cc", "sleep "+fmt.Sprint(300*ms), "has 0a", "put 0c - dd", "rm 0b", "has 0b",
				"sleep "+fmt.Sprint(2400*ms), "expectgone 0a", "expectgone 0c", "put 0d - ee", "has 0d")
			if i%4 != 3 && tier != "thorough" {
				continue
			}
			hs = append(hs, h)
			continue
		}
		span := pick(rng, 60, 90, 120) * ms
		h := []string{fmt.Sprintf("begin timecache kind=%s span=%d", kind, span)}
		keys := []string{"0a", "0b", "0c", "0d"}
		for s := 0; s < 14; s++ {
			k := keys[rng.Intn(len(keys))]
			switch x := rng.Intn(100); {
			case x < 18:
				if kind == "peer" {
					h = append(h, fmt.Sprintf("upsert %s %d -", k, pick(rng, 40, 150, 300)*ms))
				} else {
					h = append(h, fmt.Sprintf("add %s - -", k))
				}
			case x < 32:
				if kind == "peer" {
					h = append(h, fmt.Sprintf("upsert %s %d -", k, pick(rng, 40, 150, 300)*ms))
				} else {
					h = append(h, fmt.Sprintf("addspan %s %d -", k, pick(rng, 40, 150, 300)*ms))
				}
			case x < 46:
				h = append(h, fmt.Sprintf("upsert %s %d -", k, pick(rng, 40, 150, 300)*ms))
			case x < 62:
				h = append(h, "sweep")
			case x < 80:
				h = append(h, fmt.Sprintf("sleep %d", pick(rng, 5, 10, 25, 25, 200, 400)*ms))
			default:
				h = append(h, "has "+k)
			}
		}
		for _, k := range keys {
			h = append(h, "has "+k)
		}
		h = append(h, "sleep "+fmt.Sprint(450*ms), "sweep")
		for _, k := range keys {
			h = append(h, "has "+k)
		}
		hs = append(hs, h)
	}
	return hs
}
