package main

import (
	"bytes"
	"fmt"
	"math/big"
	"math/rand"
	"sort"
	"strconv"
	"strings"
	"sync"
	"time"

	"github.com/multiversx/mx-chain-core-go/data"
	"github.com/multiversx/mx-chain-core-go/data/transaction"
	"github.com/multiversx/mx-chain-storage-go/txcache"
	"github.com/multiversx/mx-chain-storage-go/types"
)

// txcache component (C01–C07)
//
//	begin txcache chunks=.. evict=0|1 nb=.. nbs=.. c=.. cs=.. n=..
//	tx <hash> <sender> <nonce> <price> <gasLimit> <size> <fee> <value> <relayer>   (defines a transaction; hash determines content)
//	add <hash> | rm <hash> | clear
//	sel <gas> <max> <stop> [a:<addr>:<nonce>:<balance>|a:<addr>:err]... [bad:<hash>]...
//	selb …same… b:<h1>,<h2>,…  (one token per bunch: selection from explicit bunches, fed from the observed lists)
type txcacheComp struct{}

func init() { register("txcache", txcacheComp{}) }

func (txcacheComp) Parallel() bool { return true }

type txDef struct {
	hash, sender, relayer  []byte
	nonce, price, gasLimit uint64
	size                   int64
	fee, value             *big.Int
}

func (t *txDef) payer() []byte {
	if len(t.relayer) > 0 {
		return t.relayer
	}
	return t.sender
}

// ppuRef: floor(fee/gasLimit) in big integers (0 when gasLimit = 0)
func (t *txDef) ppuBig() *big.Int {
	if t.gasLimit == 0 {
		return big.NewInt(0)
	}
	return new(big.Int).Div(t.fee, new(big.Int).SetUint64(t.gasLimit))
}

var maxU64 = new(big.Int).SetUint64(^uint64(0))

// moreValuableRef compares by exact fee per gas unit
func moreValuableRef(a, b *txDef) bool {
	pa, pb := a.ppuBig(), b.ppuBig()
	if c := pa.Cmp(pb); c != 0 {
		return c > 0
	}
	if a.gasLimit != b.gasLimit {
		return a.gasLimit > b.gasLimit
	}
	return bytes.Compare(a.hash, b.hash) < 0
}

func listLess(a, b *txDef) bool {
	if a.nonce != b.nonce {
		return a.nonce < b.nonce
	}
	if a.price != b.price {
		return a.price > b.price
	}
	return bytes.Compare(a.hash, b.hash) < 0
}

type txHost struct {
	byPtr map[data.TransactionWithFeeHandler]*txDef
}

func (h *txHost) ComputeTxFee(tx data.TransactionWithFeeHandler) *big.Int {
	return new(big.Int).Set(h.byPtr[tx].fee)
}
func (h *txHost) GetTransferredValue(tx data.TransactionHandler) *big.Int {
	return new(big.Int).Set(h.byPtr[tx.(data.TransactionWithFeeHandler)].value)
}
func (h *txHost) IsInterfaceNil() bool { return h == nil }

type acct struct {
	nonce   uint64
	balance *big.Int
}
type txSession struct {
	accts map[string]acct // absent: lookup error
	bad   map[string]bool // by hash
	host  *txHost
	// drift: the session is an external, stateful object — only its FIRST answer per account / per transaction is what the
	// op line records (and what the model is given); every later answer for the same account differs (other nonce, no
	// balance, or a lookup error), every later guard verdict is inverted. The code must consult it once per account.
	drift  bool
	// pool: when set, every callback also reads the pool through its public API (a session is free to do so while a
	// selection is running: what the selection has snapshotted must not be disturbed by it)
	pool    *txcache.TxCache
	scratch *types.AccountState
	mu      sync.Mutex
	asked  map[string]int
	gasked map[string]int
}

func (s *txSession) GetAccountState(a []byte) (*types.AccountState, error) {
	if s.pool != nil {
		_ = s.pool.GetTransactionsPoolForSender(string(a))
	}
	n := 0
	if s.drift {
		s.mu.Lock()
		if s.asked == nil {
			s.asked = map[string]int{}
		}
		n = s.asked[string(a)]
		s.asked[string(a)]++
		s.mu.Unlock()
	}
	ac, ok := s.accts[string(a)]
	if n > 0 {
		switch n % 3 {
		case 1:
			return &types.AccountState{Nonce: ac.nonce + 2, Balance: big.NewInt(0)}, nil
		case 2:
			return nil, fmt.Errorf("account not found (later answer)")
		default:
			return &types.AccountState{Nonce: 0, Balance: bigPow2(100)}, nil
		}
	}
	if !ok {
		return nil, fmt.Errorf("account not found")
	}
	// the session owns what it hands out and reuses it: ONE AccountState object serves every answer of a selection (with a
	// fresh balance each time). Whoever needs the nonce later has to have copied it.
	s.mu.Lock()
	if s.scratch == nil {
		s.scratch = &types.AccountState{}
	}
	st := s.scratch
	st.Nonce, st.Balance = ac.nonce, new(big.Int).Set(ac.balance)
	s.mu.Unlock()
	return st, nil
}
func (s *txSession) IsIncorrectlyGuarded(tx data.TransactionHandler) bool {
	d := s.host.byPtr[tx.(data.TransactionWithFeeHandler)]
	if s.pool != nil {
		_ = s.pool.GetTransactionsPoolForSender(string(d.sender))
		_ = s.pool.Keys()
	}
	if s.drift {
		s.mu.Lock()
		if s.gasked == nil {
			s.gasked = map[string]int{}
		}
		n := s.gasked[string(d.hash)]
		s.gasked[string(d.hash)]++
		s.mu.Unlock()
		if n > 0 {
			return !s.bad[string(d.hash)]
		}
	}
	return s.bad[string(d.hash)]
}
func (s *txSession) IsInterfaceNil() bool { return s == nil }

// fresh: the same external session at the start of a NEW SelectTransactions call (first answers again)
func (s *txSession) fresh() *txSession {
	return &txSession{accts: s.accts, bad: s.bad, host: s.host, drift: s.drift, pool: s.pool}
}

type txCfg struct {
	chunks            uint32
	evict             bool
	nb, nbs, c, cs, n uint32
}

type txRunner struct {
	violBuf
	tagBuf
	cfg     txCfg
	cache   *txcache.TxCache
	host    *txHost
	defs    map[string]*txDef
	order   []string        // hashes in definition order
	senders [][]byte        // sorted distinct senders of the table
	f3      map[string]bool // senders left above the byte limit by an incomplete trim (known finding F3)
}

func parseKV(tok []string) map[string]string {
	m := map[string]string{}
	for _, t := range tok {
		if i := strings.IndexByte(t, '='); i > 0 {
			m[t[:i]] = t[i+1:]
		}
	}
	return m
}

func atou(s string) uint64 { v, _ := strconv.ParseUint(s, 10, 64); return v }

func (txcacheComp) NewRunner(begin string) Runner {
	kv := parseKV(strings.Fields(begin))
	r := &txRunner{defs: map[string]*txDef{}}
	r.cfg = txCfg{chunks: uint32(atou(kv["chunks"])), evict: kv["evict"] == "1", nb: uint32(atou(kv["nb"])), nbs: uint32(atou(kv["nbs"])),
		c: uint32(atou(kv["c"])), cs: uint32(atou(kv["cs"])), n: uint32(atou(kv["n"]))}
	r.host = &txHost{byPtr: map[data.TransactionWithFeeHandler]*txDef{}}
	r.cache = r.newCache(r.cfg.chunks)
	return r
}

func (r *txRunner) newCache(chunks uint32) *txcache.TxCache {
	c, err := txcache.NewTxCache(txcache.ConfigSourceMe{Name: "v", NumChunks: chunks, EvictionEnabled: r.cfg.evict,
		NumBytesThreshold: r.cfg.nb, NumBytesPerSenderThreshold: r.cfg.nbs, CountThreshold: r.cfg.c, CountPerSenderThreshold: r.cfg.cs,
		NumItemsToPreemptivelyEvict: r.cfg.n}, r.host)
	if err != nil {
		panic(err)
	}
	return c
}

func (r *txRunner) Close() {}

func (r *txRunner) wrap(d *txDef) *txcache.WrappedTransaction {
	tx := &transaction.Transaction{SndAddr: d.sender, Nonce: d.nonce, GasPrice: d.price, GasLimit: d.gasLimit, RelayerAddr: d.relayer, Value: big.NewInt(0)}
	r.host.byPtr[tx] = d
	// the fields the pool derives at insertion (fee, transferred value, fee payer) arrive filled with garbage: whatever a
	// caller left in them must not be taken for the host's answer (PricePerUnit is left zero: for a zero gas limit the pool
	// does not assign it)
	return &txcache.WrappedTransaction{Tx: tx, TxHash: d.hash, Size: d.size,
		Fee: big.NewInt(987654321), TransferredValue: big.NewInt(-5), FeePayer: []byte{0xde, 0xad}}
}

// observed state through the public API
type txObs struct {
	lists   map[string][]*txDef // by sender, only present (non-nil) lists
	keys    map[string]bool
	cnt     uint64
	bytes   int
	senders uint64
}

func (r *txRunner) observe(c *txcache.TxCache) *txObs {
	o := &txObs{lists: map[string][]*txDef{}, keys: map[string]bool{}}
	for _, s := range r.senders {
		l := c.GetTransactionsPoolForSender(string(s))
		if l == nil {
			continue
		}
		ds := make([]*txDef, 0, len(l))
		for _, w := range l {
			ds = append(ds, r.defs[string(w.TxHash)])
		}
		o.lists[string(s)] = ds
	}
	for _, k := range c.Keys() {
		o.keys[string(k)] = true
		// the returned hashes belong to the caller: writing into them must not reach the pool
		for i := range k {
			k[i] = 0
		}
	}
	o.cnt = c.CountTx()
	o.bytes = c.NumBytes()
	o.senders = c.CountSenders()
	return o
}

// listsFromKeys: the senders' lists as the hash index implies them (hash -> definition, grouped by sender, documented order)
func (r *txRunner) listsFromKeys(o *txObs) map[string][]*txDef {
	m := map[string][]*txDef{}
	for k := range o.keys {
		d := r.defs[k]
		if d == nil {
			continue
		}
		m[string(d.sender)] = append(m[string(d.sender)], d)
	}
	for sn := range m {
		l := m[sn]
		sort.SliceStable(l, func(i, j int) bool { return listLess(l[i], l[j]) })
	}
	return m
}

func (r *txRunner) dump(o *txObs) string {
	var sb strings.Builder
	ks := make([][]byte, 0, len(o.keys))
	for k := range o.keys {
		ks = append(ks, []byte(k))
	}
	fmt.Fprintf(&sb, "c=%d b=%d s=%d keys=%s lists=", o.cnt, o.bytes, o.senders, sortedHexList(ks))
	first := true
	for _, s := range r.senders {
		l, ok := o.lists[string(s)]
		if !ok {
			continue
		}
		if !first {
			sb.WriteByte(';')
		}
		first = false
		hs := make([][]byte, len(l))
		for i, d := range l {
			hs[i] = d.hash
		}
		sb.WriteString(hx(s) + ":" + hexList(hs))
	}
	return sb.String()
}

// ---- oracles over observed states (never over the Lean model)

// C05: indexes and counters agree
func (r *txRunner) oracleC05(o *txObs, c *txcache.TxCache, where string) {
	inLists := map[string]bool{}
	sum := int64(0)
	nonEmpty := uint64(0)
	for _, l := range o.lists {
		if len(l) > 0 {
			nonEmpty++
		}
		for _, d := range l {
			inLists[string(d.hash)] = true
			sum += d.size
		}
	}
	for k := range o.keys {
		if !inLists[k] {
			r.add("C05", "ghost-by-hash", fmt.Sprintf("%s: hash %s reachable by hash but in no sender list", where, hx([]byte(k))))
		}
	}
	for k := range inLists {
		if !o.keys[k] {
			r.add("C05", "missing-by-hash", fmt.Sprintf("%s: hash %s in a sender list but not reachable by hash", where, hx([]byte(k))))
		}
	}
	fe := map[string]bool{}
	c.ForEachTransaction(func(h []byte, _ *txcache.WrappedTransaction) { fe[string(h)] = true })
	if len(fe) != len(o.keys) {
		r.add("C05", "foreach-vs-keys", where)
	}
	if o.cnt != uint64(len(o.keys)) || uint64(c.Len()) != o.cnt {
		r.add("C05", "count", fmt.Sprintf("%s: CountTx=%d Len=%d but %d hashes reachable", where, o.cnt, c.Len(), len(o.keys)))
	}
	sumKeys := int64(0)
	for k := range o.keys {
		sumKeys += r.defs[k].size
	}
	if int64(o.bytes) != sumKeys {
		r.add("C05", "numbytes", fmt.Sprintf("%s: NumBytes=%d but sizes sum to %d", where, o.bytes, sumKeys))
	}
	if o.senders != nonEmpty {
		r.add("C05", "senders", fmt.Sprintf("%s: CountSenders=%d but %d senders own a transaction", where, o.senders, nonEmpty))
	}
	// lookups by hash agree (C04 clause)
	for _, h := range r.order {
		_, ok1 := c.GetByTxHash([]byte(h))
		ok2 := c.Has([]byte(h))
		_, ok3 := c.Peek([]byte(h))
		_, ok4 := c.Get([]byte(h))
		if ok1 != o.keys[h] || ok2 != ok1 || ok3 != ok1 || ok4 != ok1 {
			r.add("C04", "lookups-disagree", fmt.Sprintf("%s: hash %s", where, hx([]byte(h))))
		}
	}
}

// reference add on an observed list (spec of C04): ordered insert, then drop highest-ordered while over limits
func refInsert(l []*txDef, d *txDef) []*txDef {
	out := append(append([]*txDef{}, l...), d)
	sort.SliceStable(out, func(i, j int) bool { return listLess(out[i], out[j]) })
	return out
}

func listBytes(l []*txDef) int64 {
	s := int64(0)
	for _, d := range l {
		s += d.size
	}
	return s
}

func (r *txRunner) refTrim(l []*txDef) []*txDef {
	for len(l) > 0 && (listBytes(l) > int64(r.cfg.nbs) || len(l) > int(r.cfg.cs)) {
		l = l[:len(l)-1]
	}
	return l
}

func sameList(a, b []*txDef) bool {
	if len(a) != len(b) {
		return false
	}
	for i := range a {
		if a[i] != b[i] {
			return false
		}
	}
	return true
}

func hashesOf(l []*txDef) string {
	hs := make([][]byte, len(l))
	for i, d := range l {
		hs[i] = d.hash
	}
	return hexList(hs)
}

// reference eviction (spec of C07) on observed lists: returns the surviving lists
func (r *txRunner) refEvict(pre *txObs) (map[string][]*txDef, int) {
	lists := map[string][]*txDef{}
	cnt, nbytes := 0, int64(0)
	for s, l := range pre.lists {
		if len(l) == 0 {
			continue
		}
		lists[s] = append([]*txDef{}, l...)
		cnt += len(l)
		nbytes += listBytes(l)
	}
	exceeded := func() bool {
		return nbytes > int64(r.cfg.nb) || len(lists) > int(r.cfg.c) || cnt > int(r.cfg.c)
	}
	passes := 0
	// walks from the highest-ordered end
	pos := map[string]int{}
	for s, l := range lists {
		pos[s] = len(l) - 1
	}
	walk := map[string][]*txDef{}
	for s, l := range lists {
		walk[s] = l
	}
	for exceeded() {
		var batch []*txDef
		for len(batch) < int(r.cfg.n) {
			var worst *txDef
			for s := range walk {
				if pos[s] < 0 {
					continue
				}
				c := walk[s][pos[s]]
				if worst == nil || moreValuableRef(worst, c) {
					worst = c
				}
			}
			if worst == nil {
				break
			}
			batch = append(batch, worst)
			pos[string(worst.sender)]--
		}
		if len(batch) == 0 {
			break
		}
		passes++
		low := map[string]uint64{}
		for _, d := range batch {
			low[string(d.sender)] = d.nonce
		}
		for s, n := range low {
			var keep []*txDef
			for _, d := range lists[s] {
				if d.nonce >= n {
					cnt--
					nbytes -= d.size
				} else {
					keep = append(keep, d)
				}
			}
			if len(keep) == 0 {
				delete(lists, s)
			} else {
				lists[s] = keep
			}
		}
	}
	return lists, passes
}

func (r *txRunner) poolExceeded(o *txObs) bool {
	return o.bytes > int(r.cfg.nb) || o.senders > uint64(r.cfg.c) || o.cnt > uint64(r.cfg.c)
}

func (r *txRunner) execAdd(d *txDef) string {
	pre := r.observe(r.cache)
	w := r.wrap(d)
	_, added := r.cache.AddTx(w)
	post := r.observe(r.cache)
	where := "after add " + hx(d.hash)

	// C03(e): PricePerUnit = floor(fee/gasLimit)
	want := d.ppuBig()
	if want.Cmp(maxU64) > 0 {
		// the uint64 field cannot hold the quotient: it must saturate; the ORDER is still checked exactly by the greedy / eviction references
		r.tag("ppu-quotient-beyond-uint64")
		if w.PricePerUnit != ^uint64(0) {
			r.add("C03", "ppu", fmt.Sprintf("tx %s fee=%s gasLimit=%d: floor(fee/gasLimit)=%s does not fit uint64, field must saturate (got %d)", hx(d.hash), d.fee, d.gasLimit, want, w.PricePerUnit))
		}
	} else if w.PricePerUnit != want.Uint64() {
		r.add("C03", "ppu", fmt.Sprintf("tx %s fee=%s gasLimit=%d: PricePerUnit=%d, floor(fee/gasLimit)=%s", hx(d.hash), d.fee, d.gasLimit, w.PricePerUnit, want))
	}
	if d.fee.Cmp(maxU64) > 0 {
		r.tag("fee-beyond-2^64")
	}

	// expected lists: (eviction) then ordered insert + trim, from the OBSERVED pre-state
	exp := map[string][]*txDef{}
	evictedSomething := false
	if r.cfg.evict && r.poolExceeded(pre) {
		var passes int
		exp, passes = r.refEvict(pre)
		r.tag("evicting-add")
		if passes > 1 {
			r.tag("multi-pass-eviction")
		}
		evictedSomething = true
	} else {
		for s, l := range pre.lists {
			if len(l) > 0 {
				exp[s] = l
			}
		}
	}
	survived := map[string]bool{}
	for _, l := range exp {
		for _, x := range l {
			survived[string(x.hash)] = true
		}
	}
	wasPooled := pre.keys[string(d.hash)] && (!evictedSomething || survived[string(d.hash)])
	// C04: added ⇔ hash was not pooled
	if added != !wasPooled {
		r.add("C04", "added-flag", fmt.Sprintf("%s: added=%v but hash pooled before=%v", where, added, wasPooled))
	}
	s := string(d.sender)
	full := exp[s]
	one := exp[s]
	if !wasPooled {
		ins := refInsert(exp[s], d)
		full = r.refTrim(ins)
		one = ins
		if listBytes(ins) > int64(r.cfg.nbs) || len(ins) > int(r.cfg.cs) {
			one = ins[:len(ins)-1]
			r.tag("sender-trim")
		}
	} else {
		r.tag("duplicate-add")
	}
	got := post.lists[s]
	propList := "C04"
	if evictedSomething {
		propList = "C07"
	}
	if !sameList(got, full) {
		if sameList(got, one) {
			r.tag("trim-one-insufficient")
			r.add("C04", "sender-trim-incomplete", fmt.Sprintf("%s: sender %s holds %s (%d bytes, limit %d): dropping one transaction was not enough", where, hx(d.sender), hashesOf(got), listBytes(got), r.cfg.nbs))
			r.add("C06", "sender-bytes", fmt.Sprintf("%s: sender %s holds %d bytes > NumBytesPerSenderThreshold %d", where, hx(d.sender), listBytes(got), r.cfg.nbs))
		} else {
			r.add(propList, "list-mismatch", fmt.Sprintf("%s: sender %s holds %s, reference predicts %s", where, hx(d.sender), hashesOf(got), hashesOf(full)))
		}
	}
	for _, sn := range r.senders {
		if string(sn) == s {
			continue
		}
		if !sameList(post.lists[string(sn)], exp[string(sn)]) {
			r.add(propList, "other-sender-changed", fmt.Sprintf("%s: sender %s holds %s, expected %s", where, hx(sn), hashesOf(post.lists[string(sn)]), hashesOf(exp[string(sn)])))
		}
	}
	// C07 extra clauses on evicting adds: suffix only / no gap opened / nothing while within thresholds
	if r.cfg.evict && !r.poolExceeded(pre) {
		for sn, l := range pre.lists {
			if sn == s {
				continue
			}
			if !sameList(l, post.lists[sn]) && len(l) > 0 {
				r.add("C07", "evicted-within-thresholds", where)
			}
		}
	}
	if evictedSomething {
		for sn, l := range pre.lists {
			p := post.lists[sn]
			if sn == s {
				continue
			}
			// p must be a prefix of l and the removed part exactly {nonce >= lowest removed nonce}
			if len(p) > len(l) || !sameList(p, l[:len(p)]) {
				r.add("C07", "not-a-suffix", fmt.Sprintf("%s: sender %s", where, hx([]byte(sn))))
			} else if len(p) < len(l) && len(p) > 0 && p[len(p)-1].nonce >= l[len(p)].nonce {
				r.add("C07", "same-nonce-survivor", fmt.Sprintf("%s: sender %s", where, hx([]byte(sn))))
			}
		}
	}
	// C06: limits after every insertion
	if r.f3 == nil {
		r.f3 = map[string]bool{}
	}
	if !sameList(got, full) && sameList(got, one) {
		r.f3[s] = true
	}
	for sn := range r.f3 {
		if listBytes(post.lists[sn]) <= int64(r.cfg.nbs) {
			delete(r.f3, sn)
		}
	}
	for sn, l := range post.lists {
		if len(l) > int(r.cfg.cs) {
			r.add("C06", "sender-count", fmt.Sprintf("%s: sender %s holds %d > %d", where, hx([]byte(sn)), len(l), r.cfg.cs))
		}
		if listBytes(l) > int64(r.cfg.nbs) && !(sn == s && sameList(got, one) && !sameList(got, full)) {
			if r.f3[sn] {
				r.add("C06", "sender-bytes-persisting", fmt.Sprintf("%s: sender %s still holds %d bytes > %d since an earlier incomplete trim", where, hx([]byte(sn)), listBytes(l), r.cfg.nbs))
			} else {
				r.add("C06", "sender-bytes-other", fmt.Sprintf("%s: sender %s holds %d bytes > %d", where, hx([]byte(sn)), listBytes(l), r.cfg.nbs))
			}
		}
	}
	if r.cfg.evict {
		nS := 0
		for _, l := range post.lists {
			if len(l) > 0 {
				nS++
			}
		}
		if len(post.keys) > int(r.cfg.c)+1 || nS > int(r.cfg.c)+1 {
			r.add("C06", "pool-count", fmt.Sprintf("%s: %d txs / %d senders, CountThreshold %d", where, len(post.keys), nS, r.cfg.c))
		}
		sum := int64(0)
		for k := range post.keys {
			sum += r.defs[k].size
		}
		if sum > int64(r.cfg.nb)+d.size {
			r.add("C06", "pool-bytes", fmt.Sprintf("%s: %d bytes pooled, NumBytesThreshold %d, added size %d", where, sum, r.cfg.nb, d.size))
		}
	}
	r.oracleC05(post, r.cache, where)
	return b01(added) + " | " + r.dump(post)
}

func (r *txRunner) execRm(h []byte) string {
	pre := r.observe(r.cache)
	found := r.cache.RemoveTxByHash(h)
	post := r.observe(r.cache)
	where := "after rm " + hx(h)
	if found != pre.keys[string(h)] {
		r.add("C04", "rm-flag", where)
	}
	d := r.defs[string(h)]
	for _, sn := range r.senders {
		l := pre.lists[string(sn)]
		exp := l
		if found && d != nil && string(sn) == string(d.sender) {
			exp = nil
			for _, x := range l {
				if x.nonce > d.nonce {
					exp = append(exp, x)
				}
			}
			r.tag("rm-found")
		}
		if !sameList(post.lists[string(sn)], exp) {
			r.add("C04", "rm-mismatch", fmt.Sprintf("%s: sender %s holds %s, expected %s", where, hx(sn), hashesOf(post.lists[string(sn)]), hashesOf(exp)))
		}
	}
	r.oracleC05(post, r.cache, where)
	return b01(found) + " | " + r.dump(post)
}

func (r *txRunner) parseSession(tok []string) (*txSession, [][]*txDef, bool) {
	s := &txSession{accts: map[string]acct{}, bad: map[string]bool{}, host: r.host}
	var bunches [][]*txDef
	has := false
	for _, t := range tok {
		switch {
		case strings.HasPrefix(t, "a:"):
			p := strings.Split(t, ":")
			if p[2] == "err" {
				continue
			}
			b, _ := new(big.Int).SetString(p[3], 10)
			s.accts[string(unhx(p[1]))] = acct{nonce: atou(p[2]), balance: b}
		case strings.HasPrefix(t, "bad:"):
			s.bad[string(unhx(t[4:]))] = true
		case t == "drift":
			s.drift = true
		case strings.HasPrefix(t, "b:"):
			has = true
			var l []*txDef
			for _, h := range strings.Split(t[2:], ",") {
				if h != "" {
					l = append(l, r.defs[string(unhx(h))])
				}
			}
			bunches = append(bunches, l)
		}
	}
	return s, bunches, has
}

func selOut(txs []*txcache.WrappedTransaction, gas uint64) string {
	hs := make([][]byte, len(txs))
	for i, w := range txs {
		hs[i] = w.TxHash
	}
	return fmt.Sprintf("gas=%d txs=%s", gas, hexList(hs))
}

// independent greedy reference (README procedure) over observed lists
func (r *txRunner) refSelect(lists map[string][]*txDef, s *txSession, gas uint64, maxNum int) ([]*txDef, *big.Int) {
	type st struct {
		q      []*txDef
		latest *uint64
	}
	play := map[string]*st{}
	for sn, l := range lists {
		if len(l) > 0 {
			play[sn] = &st{q: l}
		}
	}
	nonceOf := func(a []byte) uint64 {
		if ac, ok := s.accts[string(a)]; ok {
			return ac.nonce
		}
		return 0
	}
	balOf := func(a []byte) *big.Int {
		if ac, ok := s.accts[string(a)]; ok {
			return ac.balance
		}
		return big.NewInt(0)
	}
	consumed := map[string]*big.Int{}
	get := func(a []byte) *big.Int {
		if consumed[string(a)] == nil {
			consumed[string(a)] = big.NewInt(0)
		}
		return consumed[string(a)]
	}
	var out []*txDef
	acc := big.NewInt(0)
	gasB := new(big.Int).SetUint64(gas)
	for len(play) > 0 {
		var best *txDef
		for _, p := range play {
			if best == nil || moreValuableRef(p.q[0], best) {
				best = p.q[0]
			}
		}
		sn := string(best.sender)
		p := play[sn]
		if new(big.Int).Add(acc, new(big.Int).SetUint64(best.gasLimit)).Cmp(gasB) > 0 {
			break
		}
		if len(out) >= maxNum {
			break
		}
		n := nonceOf(best.sender)
		gap := (p.latest == nil && best.nonce > n) || (p.latest != nil && best.nonce > *p.latest && best.nonce-*p.latest > 1)
		poor := new(big.Int).Add(get(best.payer()), best.fee).Cmp(balOf(best.payer())) > 0
		if gap || poor {
			delete(play, sn)
			continue
		}
		skip := best.nonce < n || s.bad[string(best.hash)] || (p.latest != nil && best.nonce == *p.latest)
		if !skip {
			acc.Add(acc, new(big.Int).SetUint64(best.gasLimit))
			out = append(out, best)
			nn := best.nonce
			p.latest = &nn
			get(best.sender).Add(get(best.sender), best.value)
			get(best.payer()).Add(get(best.payer()), best.fee)
		}
		p.q = p.q[1:]
		if len(p.q) == 0 {
			delete(play, sn)
		}
	}
	return out, acc
}

func (r *txRunner) selOracles(txs []*txcache.WrappedTransaction, accGas uint64, s *txSession, gas uint64, maxNum int, pool *txObs, where string) []*txDef {
	res := make([]*txDef, len(txs))
	for i, w := range txs {
		res[i] = r.defs[string(w.TxHash)]
	}
	// C01
	bySender := map[string][]uint64{}
	for _, d := range res {
		bySender[string(d.sender)] = append(bySender[string(d.sender)], d.nonce)
	}
	for sn, ns := range bySender {
		start := uint64(0)
		if ac, ok := s.accts[sn]; ok {
			start = ac.nonce
		}
		for i, n := range ns {
			if n != start+uint64(i) {
				r.add("C01", "nonce-run", fmt.Sprintf("%s: sender %s nonces %v, account nonce %d", where, hx([]byte(sn)), ns, start))
				break
			}
		}
	}
	// C02
	seen := map[string]bool{}
	sum := big.NewInt(0)
	consumed := map[string]*big.Int{}
	get := func(a []byte) *big.Int {
		if consumed[string(a)] == nil {
			consumed[string(a)] = big.NewInt(0)
		}
		return consumed[string(a)]
	}
	for _, d := range res {
		if seen[string(d.hash)] {
			r.add("C02", "duplicate", where)
		}
		seen[string(d.hash)] = true
		if pool != nil && !pool.keys[string(d.hash)] {
			r.add("C02", "not-in-pool", where+" "+hx(d.hash))
		}
		sum.Add(sum, new(big.Int).SetUint64(d.gasLimit))
		if s.bad[string(d.hash)] {
			r.add("C02", "bad-guard-selected", where+" "+hx(d.hash))
		}
		bal := big.NewInt(0)
		if ac, ok := s.accts[string(d.payer())]; ok {
			bal = ac.balance
		}
		if new(big.Int).Add(get(d.payer()), d.fee).Cmp(bal) > 0 {
			r.add("C02", "balance", fmt.Sprintf("%s: tx %s payer %s committed %s + fee %s > balance %s", where, hx(d.hash), hx(d.payer()), get(d.payer()), d.fee, bal))
		}
		get(d.payer()).Add(get(d.payer()), d.fee)
		get(d.sender).Add(get(d.sender), d.value)
	}
	mx := maxNum
	if mx < 0 {
		mx = 0
	}
	if len(res) > mx {
		r.add("C02", "max-num", fmt.Sprintf("%s: %d > maxNum %d", where, len(res), maxNum))
	}
	if sum.Cmp(new(big.Int).SetUint64(accGas)) != 0 {
		r.add("C02", "gas-sum", fmt.Sprintf("%s: gas limits sum to %s, returned accumulated gas %d", where, sum, accGas))
	}
	if sum.Cmp(new(big.Int).SetUint64(gas)) > 0 || accGas > gas {
		r.add("C02", "gas-budget", fmt.Sprintf("%s: gas limits sum to %s (returned %d) > gasRequested %d", where, sum, accGas, gas))
	}
	return res
}

func (r *txRunner) execSel(tok []string, line string) (string, string) {
	gas := atou(tok[1])
	maxNum, _ := strconv.Atoi(tok[2])
	stop := tok[3] == "1"
	s, _, explicit := r.parseSession(tok[4:])
	s.pool = r.cache
	dur := time.Hour
	if stop {
		dur = -1
	}
	where := "sel"
	if explicit {
		// selection from explicit bunches is served by a scratch cache holding exactly those lists
		// (same code path: SelectTransactions → acquireBunches → selectTransactionsFromBunches)
		r.tag("selb")
	}
	pre := r.observe(r.cache)
	preDump := r.dump(pre)
	txs, acc := r.cache.SelectTransactions(s.fresh(), gas, maxNum, dur)
	post := r.observe(r.cache)
	if r.dump(post) != preDump {
		r.add("C03", "pool-changed-by-selection", where)
		r.add("C05", "pool-changed-by-selection", where)
	}
	res := r.selOracles(txs, acc, s, gas, maxNum, pre, where)
	out := selOut(txs, acc)
	if len(txs) > 0 {
		r.tag("sel-nonempty")
	} else {
		r.tag("sel-empty")
	}
	// C03: repeatable
	txs2, acc2 := r.cache.SelectTransactions(s.fresh(), gas, maxNum, dur)
	if selOut(txs2, acc2) != out {
		r.add("C03", "not-repeatable", where)
	}
	if !stop {
		// C03: equals the greedy reference
		exp, expGas := r.refSelect(pre.lists, s, gas, maxNum)
		if !sameList(exp, res) || expGas.Cmp(new(big.Int).SetUint64(acc)) != 0 {
			r.add("C03", "greedy-mismatch", fmt.Sprintf("%s: got %s gas %d, greedy reference %s gas %s", where, hashesOf(res), acc, hashesOf(exp), expGas))
		}
		// C03: "depends only on pool contents": the same reference over the lists rebuilt from the hash index (Keys), in the
		// documented per-sender order, must give the same sequence; a selection served from anything else than the present
		// content of the pool (a stale copy of a sender's list, say) differs here even when it agrees with the lists the
		// pool hands out
		truth := r.listsFromKeys(pre)
		expT, expTGas := r.refSelect(truth, s, gas, maxNum)
		if !sameList(expT, res) || expTGas.Cmp(new(big.Int).SetUint64(acc)) != 0 {
			r.add("C03", "not-a-function-of-pool-contents", fmt.Sprintf("%s: got %s gas %d, greedy reference over the hashes in the pool %s gas %s", where, hashesOf(res), acc, hashesOf(expT), expTGas))
		}
		// C03: prefix under lowered limits / time budget
		if len(txs) > 0 {
			lower := len(txs) - 1
			t3, _ := r.cache.SelectTransactions(s.fresh(), gas, lower, dur)
			if len(t3) > len(txs) || selOut(t3, 0) != selOut(txs[:len(t3)], 0) || len(t3) != lower {
				r.add("C03", "prefix-maxnum", where)
			}
			if acc > 0 {
				t4, _ := r.cache.SelectTransactions(s.fresh(), acc-1, maxNum, dur)
				if len(t4) > len(txs) || selOut(t4, 0) != selOut(txs[:len(t4)], 0) {
					r.add("C03", "prefix-gas", where)
				}
			}
			t5, _ := r.cache.SelectTransactions(s.fresh(), gas, maxNum, -1)
			if len(t5) > len(txs) || selOut(t5, 0) != selOut(txs[:len(t5)], 0) {
				r.add("C03", "prefix-time", where)
			}
			t6, _ := r.cache.SelectTransactions(s.fresh(), gas, maxNum, time.Nanosecond)
			if len(t6) > len(txs) || selOut(t6, 0) != selOut(txs[:len(t6)], 0) {
				r.add("C03", "prefix-time", where)
			}
		}
	} else if len(txs) != 0 {
		r.add("C03", "time-budget-ignored", where)
	}
	// rewrite the line with the observed bunches so that the model's selection is fed the implementation's lists
	if tok[0] == "selb" {
		var keep []string
		for _, t := range tok {
			if !strings.HasPrefix(t, "b:") {
				keep = append(keep, t)
			}
		}
		for _, sn := range r.senders {
			l := pre.lists[string(sn)]
			if len(l) == 0 {
				continue
			}
			hs := make([]string, len(l))
			for i, d := range l {
				hs[i] = hx(d.hash)
			}
			keep = append(keep, "b:"+strings.Join(hs, ","))
		}
		line = strings.Join(keep, " ")
	}
	return line, out
}

// selperm: rebuild the same transaction set under shuffled insertion orders and other chunk counts (eviction off),
// the selections must be identical (C03: independent of insertion order and chunk count)
func (r *txRunner) execSelPerm(tok []string) string {
	seed := int64(atou(tok[1]))
	gas := atou(tok[2])
	maxNum, _ := strconv.Atoi(tok[3])
	s, _, _ := r.parseSession(tok[4:])
	pre := r.observe(r.cache)
	var all []*txDef
	for _, sn := range r.senders {
		all = append(all, pre.lists[string(sn)]...)
	}
	txs, acc := r.cache.SelectTransactions(s.fresh(), gas, maxNum, time.Hour)
	base := selOut(txs, acc)
	// the rebuilt pools must hold exactly the same set: no per-sender limit may trim in them, whatever the insertion order.
	// With caller-declared sizes beyond the largest accepted byte limit (32 MiB) that cannot be arranged: not comparable.
	perSender := map[string]int64{}
	for _, d := range all {
		perSender[string(d.sender)] += d.size
	}
	for _, b := range perSender {
		if b > 33_554_432 {
			r.tag("selperm-skipped-oversized")
			return base
		}
	}
	rng := rand.New(rand.NewSource(seed))
	saved := r.cfg
	r.cfg.evict = false
	r.cfg.cs = 1 << 30
	r.cfg.nbs = 33_554_432
	for i, ch := range []uint32{1, 3, 16, 128} {
		c := r.newCache(ch)
		perm := rng.Perm(len(all))
		for _, j := range perm {
			c.AddTx(r.wrap(all[j]))
		}
		t2, a2 := c.SelectTransactions(s.fresh(), gas, maxNum, time.Hour)
		if selOut(t2, a2) != base {
			r.add("C03", "order-or-chunk-dependence", fmt.Sprintf("selperm variant %d chunks=%d: %s vs %s", i, ch, selOut(t2, a2), base))
		}
	}
	r.cfg = saved
	r.tag("selperm")
	return base
}

func (r *txRunner) Exec(line string) string {
	tok := strings.Fields(line)
	switch tok[0] {
	case "tx":
		fee, _ := new(big.Int).SetString(tok[7], 10)
		val, _ := new(big.Int).SetString(tok[8], 10)
		sz, _ := strconv.ParseInt(tok[6], 10, 64)
		d := &txDef{hash: unhx(tok[1]), sender: unhx(tok[2]), nonce: atou(tok[3]), price: atou(tok[4]), gasLimit: atou(tok[5]), size: sz, fee: fee, value: val, relayer: unhx(tok[9])}
		r.defs[string(d.hash)] = d
		r.order = append(r.order, string(d.hash))
		found := false
		for _, s := range r.senders {
			if bytes.Equal(s, d.sender) {
				found = true
			}
		}
		if !found {
			r.senders = append(r.senders, d.sender)
			sort.Slice(r.senders, func(i, j int) bool { return bytes.Compare(r.senders[i], r.senders[j]) < 0 })
		}
		return "ok"
	case "add":
		return r.execAdd(r.defs[string(unhx(tok[1]))])
	case "rm":
		return r.execRm(unhx(tok[1]))
	case "clear":
		r.cache.Clear()
		post := r.observe(r.cache)
		if len(post.keys) != 0 || len(post.lists) != 0 {
			r.add("C04", "clear-leaves-content", "after clear")
		}
		r.oracleC05(post, r.cache, "after clear")
		r.tag("clear")
		return "| " + r.dump(post)
	case "sel", "selb":
		_, out := r.execSel(tok, line)
		return out
	case "selperm":
		return r.execSelPerm(tok)
	}
	return "bad-op"
}

// Rewrite lets a runner replace an op line by the line the model must consume (observations fed in)
func (r *txRunner) Rewrite(line string) string {
	tok := strings.Fields(line)
	if tok[0] != "selb" {
		return line
	}
	pre := r.observe(r.cache)
	var keep []string
	for _, t := range tok {
		if !strings.HasPrefix(t, "b:") {
			keep = append(keep, t)
		}
	}
	for _, sn := range r.senders {
		l := pre.lists[string(sn)]
		if len(l) == 0 {
			continue
		}
		hs := make([]string, len(l))
		for i, d := range l {
			hs[i] = hx(d.hash)
		}
		keep = append(keep, "b:"+strings.Join(hs, ","))
	}
	return strings.Join(keep, " ")
}

// ---------------- generator ----------------

func pick[T any](rng *rand.Rand, xs ...T) T { return xs[rng.Intn(len(xs))] }

func bigPow2(k uint) *big.Int { return new(big.Int).Lsh(big.NewInt(1), k) }

func (txcacheComp) Gen(rng *rand.Rand, tier string) [][]string {
	nh := 1000
	steps := 50
	if tier == "thorough" {
		nh = 4000
		steps = 60
	}
	var hs [][]string
	hs = append(hs, txDirected()...)
	for i := 0; i < nh; i++ {
		if i%10 == 6 || i%10 == 3 {
			hs = append(hs, genTxStorm(rng, i))
			continue
		}
		hs = append(hs, genTxHistory(rng, steps, i))
	}
	return hs
}

// txDirected: fixed histories, present in every run whatever the seed
func txDirected() [][]string {
	return [][]string{
		// eviction by bytes, batches of ONE: the three same-nonce alternatives of sender a0 are the least valuable transactions; the
		// first pass takes one of them (its siblings go along), the next passes pop the stale siblings and must NOT end the eviction
		// while the pool (1000 bytes) is still above the threshold (900): two transactions of sender c0 have to go as well
		{"begin txcache chunks=2 evict=1 nb=900 nbs=1000000 c=1000 cs=100 n=1",
			"tx a101 a0 0 1 10 50 10 0 -", "tx a102 a0 0 1 20 50 20 0 -", "tx a103 a0 0 1 30 50 30 0 -",
			"tx c101 c0 0 2 10 100 20 0 -", "tx c102 c0 1 2 10 100 20 0 -",
			"tx b101 b0 0 3 10 800 30 0 -", "tx d101 d0 0 4 10 50 40 0 -", "tx d102 d0 1 4 10 50 40 0 -",
			"add a101", "add a102", "add a103", "add c101", "add c102", "add b101", "add d101", "add d102", "add a101"},
		// the same with batches of two and four alternatives
		{"begin txcache chunks=1 evict=1 nb=900 nbs=1000000 c=1000 cs=100 n=2",
			"tx a101 a0 0 1 10 50 10 0 -", "tx a102 a0 0 1 20 50 20 0 -", "tx a103 a0 0 1 30 50 30 0 -", "tx a104 a0 0 1 40 50 40 0 -",
			"tx c101 c0 0 2 10 100 20 0 -", "tx c102 c0 1 2 10 100 20 0 -", "tx c103 c0 2 2 10 100 20 0 -",
			"tx b101 b0 0 3 10 800 30 0 -", "tx d101 d0 0 4 10 50 40 0 -", "tx d102 d0 1 4 10 50 40 0 -",
			"add a101", "add a102", "add a103", "add a104", "add c101", "add c102", "add c103", "add b101", "add d101", "add d102"},
		// a sender that survives a partial eviction and then grows to its byte limit: eviction by count (threshold 4) takes the
		// highest nonce of a0 (the least valuable transactions), the other senders leave, a0 adds until 400 bytes > 300 are
		// offered: the per-sender byte limit must still be enforced on the sender's REAL content
		{"begin txcache chunks=1 evict=1 nb=1000000 nbs=300 c=4 cs=100 n=1",
			"tx a101 a0 0 1 10 100 10 0 -", "tx a102 a0 1 1 10 100 10 0 -", "tx a103 a0 2 1 10 100 10 0 -",
			"tx a104 a0 2 1 10 100 10 0 -", "tx a105 a0 3 1 10 100 10 0 -", "tx a106 a0 4 1 10 100 10 0 -",
			"tx b101 b0 0 5 10 50 50 0 -", "tx c101 c0 0 5 10 50 50 0 -", "tx d101 d0 0 5 10 50 50 0 -", "tx e101 e0 0 5 10 50 50 0 -",
			"add a101", "add a102", "add a103", "add b101", "add c101", "add d101", "add e101",
			"rm b101", "rm c101", "rm d101", "rm e101",
			"add a104", "add a105", "add a106", "add a103"},
		// the same by bytes with batches of two, the survivor keeps one transaction only
		{"begin txcache chunks=4 evict=1 nb=500 nbs=250 c=1000 cs=100 n=2",
			"tx a101 a0 0 1 10 80 10 0 -", "tx a102 a0 1 1 10 80 10 0 -", "tx a103 a0 2 1 10 80 10 0 -",
			"tx a104 a0 1 1 10 80 10 0 -", "tx a105 a0 2 1 10 80 10 0 -", "tx a106 a0 3 1 10 80 10 0 -",
			"tx b101 b0 0 5 10 150 50 0 -", "tx c101 c0 0 5 10 150 50 0 -", "tx d101 d0 0 5 10 50 50 0 -",
			"add a101", "add a102", "add a103", "add b101", "add c101", "add d101",
			"rm b101", "rm c101", "rm d101",
			"add a104", "add a105", "add a106"},
		// selection, then an insertion by ANOTHER sender whose eviction cuts the tail of a0, then the same selection again:
		// the second selection must be computed from what is in the pool now (no evicted transaction, same greedy merge)
		{"begin txcache chunks=1 evict=1 nb=1000000 nbs=1000000 c=5 cs=100 n=1",
			"tx a101 a0 0 1 10 50 10 0 -", "tx a102 a0 1 1 10 50 10 0 -", "tx a103 a0 2 1 10 50 10 0 -", "tx a104 a0 3 1 10 50 10 0 -",
			"tx b101 b0 0 5 10 50 50 0 -", "tx b102 b0 1 5 10 50 50 0 -", "tx c101 c0 0 6 10 50 60 0 -", "tx d101 d0 0 7 10 50 70 0 -",
			"add a101", "add a102", "add a103", "add a104", "add b101", "add b102",
			"sel 1000000 1000 0 a:a0:0:1000000 a:b0:0:1000000 a:c0:0:1000000 a:d0:0:1000000",
			"add c101",
			"sel 1000000 1000 0 a:a0:0:1000000 a:b0:0:1000000 a:c0:0:1000000 a:d0:0:1000000",
			"add d101",
			"sel 1000000 1000 0 a:a0:0:1000000 a:b0:0:1000000 a:c0:0:1000000 a:d0:0:1000000",
			"selb 1000000 1000 0 a:a0:0:1000000 a:b0:0:1000000 a:c0:0:1000000 a:d0:0:1000000",
			"rm a101",
			"sel 1000000 1000 0 a:a0:1:1000000 a:b0:0:1000000 a:c0:0:1000000 a:d0:0:1000000"},
		// a late lower nonce, removed again, then a replacement for a nonce in the middle: the sender's list must still be in
		// nonce order (an insertion shortcut that trusts "the last added element is the tail" goes wrong here) and the selection
		// must be one run of nonces
		{"begin txcache chunks=1 evict=0 nb=1000000 nbs=1000000 c=1000 cs=100 n=1",
			"tx a106 a0 6 1 10 50 10 0 -", "tx a107 a0 7 1 10 50 10 0 -", "tx a105 a0 5 1 10 50 10 0 -", "tx a1b6 a0 6 2 10 50 20 0 -",
			"tx a108 a0 8 1 10 50 10 0 -", "tx b101 b0 0 5 10 50 50 0 -",
			"add a106", "add a107", "add a105", "add b101",
			"sel 1000000 1000 0 a:a0:5:1000000 a:b0:0:1000000",
			"rm a105", "add a1b6",
			"sel 1000000 1000 0 a:a0:6:1000000 a:b0:0:1000000",
			"selb 1000000 1000 0 a:a0:6:1000000 a:b0:0:1000000",
			"add a108",
			"sel 1000000 1000 0 a:a0:6:1000000 a:b0:0:1000000"},
		// selection, Clear, the same sender comes back with the same nonces, selection: whatever a selection or an eviction
		// remembered about the senders must not survive Clear
		{"begin txcache chunks=4 evict=1 nb=1000000 nbs=1000000 c=1000 cs=100 n=1",
			"tx a107 a0 7 1 10 50 10 0 -", "tx a108 a0 8 1 10 50 10 0 -", "tx a109 a0 9 1 10 50 10 0 -", "tx b103 b0 3 5 10 50 50 0 -",
			"tx a1c7 a0 7 2 10 50 20 0 -", "tx a1c8 a0 8 2 10 50 20 0 -",
			"add a107", "add a108", "add b103",
			"sel 1000000 1000 0 a:a0:7:1000000 a:b0:3:1000000",
			"clear",
			"sel 1000000 1000 0 a:a0:7:1000000 a:b0:3:1000000",
			"add a1c7", "add a1c8", "add a109", "add b103",
			"sel 1000000 1000 0 a:a0:7:1000000 a:b0:3:1000000",
			"selb 1000000 1000 0 a:a0:7:1000000 a:b0:3:1000000",
			"clear", "add a107",
			"sel 1000000 1000 0 a:a0:7:1000000 a:b0:3:1000000"},
		// zero-gas transactions behind an EXACTLY consumed gas budget: a candidate breaks the budget only when its gas limit
		// exceeds what is left; zero does not (also with gasRequested = 0)
		{"begin txcache chunks=2 evict=0 nb=1000000 nbs=1000000 c=1000 cs=100 n=1",
			"tx a100 a0 0 2 50000 50 100000 0 -", "tx b100 b0 0 2 50000 50 100000 0 -",
			"tx a101 a0 1 1 0 50 0 0 -", "tx c100 c0 0 1 0 50 0 0 -",
			"add a100", "add b100", "add a101", "add c100",
			"sel 100000 1000 0 a:a0:0:1000000 a:b0:0:1000000 a:c0:0:1000000",
			"selb 100000 1000 0 a:a0:0:1000000 a:b0:0:1000000 a:c0:0:1000000",
			"sel 50000 1000 0 a:a0:0:1000000 a:b0:0:1000000 a:c0:0:1000000",
			"rm a100", "rm b100",
			"sel 0 1000 0 a:a0:1:1000000 a:b0:0:1000000 a:c0:0:1000000",
			"selb 0 1000 0 a:a0:1:1000000 a:b0:0:1000000 a:c0:0:1000000"},
		// the same by bytes, several chunks, two senders cut
		{"begin txcache chunks=16 evict=1 nb=400 nbs=1000000 c=1000 cs=100 n=2",
			"tx a101 a0 0 1 10 50 10 0 -", "tx a102 a0 1 1 10 50 10 0 -", "tx a103 a0 2 1 10 50 10 0 -",
			"tx b101 b0 0 2 10 50 20 0 -", "tx b102 b0 1 2 10 50 20 0 -", "tx b103 b0 2 2 10 50 20 0 -",
			"tx c101 c0 0 6 10 150 60 0 -", "tx d101 d0 0 7 10 50 70 0 -",
			"add a101", "add a102", "add a103", "add b101", "add b102", "add b103",
			"selb 1000000 1000 0 a:a0:0:1000000 a:b0:0:1000000 a:c0:0:1000000 a:d0:0:1000000",
			"add c101",
			"selb 1000000 1000 0 a:a0:0:1000000 a:b0:0:1000000 a:c0:0:1000000 a:d0:0:1000000",
			"add d101",
			"selb 1000000 1000 0 a:a0:0:1000000 a:b0:0:1000000 a:c0:0:1000000 a:d0:0:1000000",
			"sel 1000000 1000 0 a:a0:0:1000000 a:b0:0:1000000 a:c0:0:1000000 a:d0:0:1000000"},
	}
}

// genTxStorm: directed eviction histories — "fee-bump storms" (one sender holding several same-nonce alternatives that are the
// least valuable transactions of the pool), ties on the price per unit across senders (order decided by gas limit / hash),
// uneven sizes with a byte threshold that needs several passes, small batch sizes. These are the shapes in which a heap that
// is advanced wrongly, a sibling removed as collateral, or a pass that removes nothing make eviction deviate.
func genTxStorm(rng *rand.Rand, idx int) []string {
	n := pick(rng, 1, 1, 1, 2, 2, 3)
	c := pick(rng, 8, 12, 20, 1000, 1000)
	nb := pick(rng, 400, 600, 900, 1000, 1000000)
	if c == 1000 && nb == 1000000 {
		nb = 900
	}
	chunks := pick(rng, 1, 2, 16)
	h := []string{fmt.Sprintf("begin txcache chunks=%d evict=1 nb=%d nbs=1000000 c=%d cs=100 n=%d", chunks, nb, c, n)}
	nSenders := 2 + rng.Intn(3)
	var hashes [][]byte
	mk := func(sender []byte, nonce uint64, price uint64, gasLimit uint64, size int) {
		hash := []byte{byte(0x30 + len(hashes)), byte(rng.Intn(256))}
		if rng.Intn(3) == 0 {
			hash = []byte{byte(0x30 + len(hashes))}
		}
		fee := new(big.Int).Mul(new(big.Int).SetUint64(gasLimit), new(big.Int).SetUint64(price))
		h = append(h, fmt.Sprintf("tx %s %s %d %d %d %d %s 0 -", hx(hash), hx(sender), nonce, price, gasLimit, size, fee))
		hashes = append(hashes, hash)
	}
	prices := []uint64{1, 1, 2}
	if rng.Intn(3) == 0 {
		prices = []uint64{1, 1, 1} // everything ties on the price per unit
	}
	pure := idx%20 < 10 // the storm's alternatives are strictly the least valuable transactions of the pool, all with one price
	if pure {
		prices = []uint64{2, 3, 3}
	}
	for si := 0; si < nSenders; si++ {
		sender := []byte{byte(0xb0 + si), byte(rng.Intn(256))}
		nonces := 2 + rng.Intn(3)
		for nonce := 0; nonce < nonces; nonce++ {
			alts := 1
			if si == 0 && nonce == nonces-1 {
				alts = n + 1 + rng.Intn(3) // the storm: more same-nonce alternatives than one batch takes
				if pure {
					alts = 2*n + 1 + rng.Intn(2) // …and more left over than a further whole batch
				}
			} else if rng.Intn(4) == 0 {
				alts = 2
			}
			for a := 0; a < alts; a++ {
				price := prices[rng.Intn(len(prices))]
				if si == 0 {
					price = 1
				}
				gasLimit := pick(rng, uint64(10), 10, 20, 50)
				size := pick(rng, 50, 50, 100, 200)
				if pure && si == 0 && nonce == nonces-1 {
					mk(sender, uint64(nonce), 1, gasLimit, size)
					continue
				}
				mk(sender, uint64(nonce), price+uint64(a), gasLimit, size) // same nonce: distinct gas prices order the siblings
			}
		}
	}
	// one or two large transactions that push the byte counter far over the threshold
	big1 := []byte{0xbf, byte(rng.Intn(256))}
	mk(big1, 0, 3, 10, pick(rng, 500, 800, 800))
	if rng.Intn(2) == 0 {
		mk(big1, 1, 3, 10, pick(rng, 300, 500))
	}
	order := rng.Perm(len(hashes))
	for _, i := range order {
		h = append(h, "add "+hx(hashes[i]))
	}
	for i := 0; i < 12; i++ {
		switch x := rng.Intn(10); {
		case x < 7:
			h = append(h, "add "+hx(hashes[rng.Intn(len(hashes))]))
		case x < 9:
			h = append(h, "rm "+hx(hashes[rng.Intn(len(hashes))]))
		default:
			h = append(h, fmt.Sprintf("selb %d 1000 0", ^uint64(0)))
		}
	}
	return h
}

func genTxHistory(rng *rand.Rand, steps int, idx int) []string {
	mode := idx % 5 // 0: eviction off (C04), 1,2: eviction on, 3: selection-heavy, roomy limits, 4: same with huge gas limits
	evict := mode == 1 || mode == 2
	c := pick(rng, 4, 4, 5, 6, 8)
	nb := pick(rng, 4, 60, 100, 300, 1000, 1000000)
	cs := pick(rng, 1, 2, 3, 3, 100)
	nbs := pick(rng, 1, 60, 150, 150, 1000000)
	n := pick(rng, 1, 1, 2, 3, 7)
	if mode >= 3 {
		c, nb, cs, nbs = 1000, 1000000, 100, 1000000
	}
	if mode == 2 {
		nbs, cs = 1000000, 100 // keep per-sender trimming out of most eviction histories
	}
	chunks := pick(rng, 1, 2, 7, 16, 128)
	h := []string{fmt.Sprintf("begin txcache chunks=%d evict=%s nb=%d nbs=%d c=%d cs=%d n=%d", chunks, b01(evict), nb, nbs, c, cs, n)}
	nSenders := 2 + rng.Intn(4)
	if mode == 0 || rng.Intn(3) == 0 {
		nSenders = 1 + rng.Intn(3) // few senders: long lists, the per-sender mechanisms (trim, prefix removal, byte accounting) interact
	}
	var senders, relayers [][]byte
	for i := 0; i < nSenders; i++ {
		senders = append(senders, []byte{byte(0xa0 + i), byte(rng.Intn(256))})
	}
	relayers = append(relayers, []byte{0xee, 0x01})
	if rng.Intn(3) != 0 {
		relayers = append(relayers, senders[0]) // an account that is both sender and relayer
		if rng.Intn(2) == 0 {
			relayers = append(relayers, senders[len(senders)-1])
		}
	}
	relayers = append(relayers, []byte{0xee, 0x02})
	// value flavour of the whole history: 0 = quotients saturating the 64-bit price field with ties on the floor,
	// 1 = fees / values / balances around 2^63 and 2^64 (sums cross the 64-bit boundary), else mixed
	flavour := rng.Intn(8)
	nTx := 8 + rng.Intn(18)
	type gdef struct {
		hash     []byte
		fee      *big.Int
		sender   []byte
		gasLimit uint64
	}
	var defs []gdef
	used := map[string]bool{}
	nextNonce := map[string]uint64{}
	for i := 0; i < nTx; i++ {
		var hash []byte
		for {
			hash = make([]byte, 1+rng.Intn(3))
			for j := range hash {
				hash[j] = byte(rng.Intn(256))
			}
			if rng.Intn(3) == 0 {
				hash[0] = 0x10 // shared prefixes exercise bytes.Compare on different lengths
			}
			if flavour == 5 && i == 2 {
				// the EMPTY hash is a hash like any other (nothing validates it): indexed, counted, removed and evicted as the others
				hash = []byte{}
			}
			if !used[string(hash)] {
				used[string(hash)] = true
				break
			}
		}
		sender := senders[rng.Intn(len(senders))]
		nonce := uint64(rng.Intn(4))
		if rng.Intn(3) == 0 {
			nonce = uint64(rng.Intn(2))
		}
		if rng.Intn(10) < 6 {
			// mostly consecutive nonces per sender so that selections produce long runs
			nonce = nextNonce[string(sender)]
			nextNonce[string(sender)]++
		}
		switch rng.Intn(30) {
		case 0:
			nonce = ^uint64(0)
		case 1:
			nonce = ^uint64(0) - 1
		case 2:
			nonce = 1 << 32
		}
		price := pick(rng, uint64(1), 1, 2, 3, 10, 1000000000)
		if rng.Intn(10) == 0 {
			// boundary gas prices (same-nonce ordering compares them)
			price = pick(rng, uint64(1)<<63, (uint64(1)<<63)-1, (uint64(1)<<63)+1, ^uint64(0), ^uint64(0)-5, 1<<32, (1<<32)+1, 0)
		}
		gasLimit := pick(rng, uint64(0), 1, 1, 2, 5, 10, 10, 50000, 50000)
		if rng.Intn(12) == 0 || (mode == 4 && rng.Intn(2) == 0) {
			gasLimit = pick(rng, uint64(1)<<63, ^uint64(0), (uint64(1)<<63)+1, 1<<62)
		}
		size := pick(rng, 0, 1, 10, 50, 50, 100, 100, 500)
		if rng.Intn(40) == 0 {
			// caller-declared sizes beyond 32 bits (Size is an int64; every limit is a uint32)
			size = pick(rng, 1<<32, (1<<32)+64, (1<<33)+1, (1<<32)-1)
		}
		fee := new(big.Int).Mul(new(big.Int).SetUint64(gasLimit), new(big.Int).SetUint64(price))
		switch rng.Intn(12) {
		case 0:
			fee = big.NewInt(0)
		case 1:
			fee = new(big.Int).Add(bigPow2(64), big.NewInt(int64(rng.Intn(100))))
		case 2:
			fee = new(big.Int).Add(bigPow2(70), big.NewInt(int64(rng.Intn(100))))
		case 3:
			fee = big.NewInt(int64(rng.Intn(40)))
		case 4:
			fee = new(big.Int).SetUint64(^uint64(0))
		case 5:
			// a family of fees with the SAME huge quotient (≥ 2^64) and different remainders: floor(fee/gasLimit) ties
			q := new(big.Int).Add(bigPow2(64), big.NewInt(5))
			if gasLimit > 0 {
				fee = new(big.Int).Mul(q, new(big.Int).SetUint64(gasLimit))
				if gasLimit > 1 {
					fee.Add(fee, new(big.Int).SetUint64(uint64(rng.Int63n(int64(gasLimit%(1<<62))+1))%gasLimit))
				}
			}
		case 6:
			// fees just below / at / above 2^64 so that sums of commitments cross the 64-bit boundary
			fee = new(big.Int).Sub(bigPow2(64), big.NewInt(int64(rng.Intn(1000))))
		}
		if flavour == 0 && gasLimit > 0 && gasLimit < 1<<40 {
			q := new(big.Int).Add(bigPow2(64), big.NewInt(int64(5+rng.Intn(2))))
			fee = new(big.Int).Mul(q, new(big.Int).SetUint64(gasLimit))
			fee.Add(fee, big.NewInt(rng.Int63n(int64(gasLimit))))
		}
		if flavour == 1 {
			fee = pick(rng, new(big.Int).Sub(bigPow2(64), big.NewInt(int64(1+rng.Intn(50)))), new(big.Int).Add(bigPow2(63), big.NewInt(int64(rng.Intn(50)))), big.NewInt(int64(1+rng.Intn(50))))
		}
		value := pick(rng, "0", "0", "1", "7", "1000", "18446744073709551616", "18446744073709551615", "18446744073609551616", "9223372036854775808")
		if flavour == 1 {
			value = pick(rng, "0", "1", "18446744073709551615", "18446744073709551516", "9223372036854775808", "9223372036854775907")
		}
		relayer := []byte{}
		if rng.Intn(4) == 0 || (flavour >= 6 && rng.Intn(2) == 0) {
			relayer = relayers[rng.Intn(len(relayers))]
			if bytes.Equal(relayer, sender) {
				relayer = []byte{}
			}
		}
		h = append(h, fmt.Sprintf("tx %s %s %d %d %d %d %s %s %s", hx(hash), hx(sender), nonce, price, gasLimit, size, fee, value, hx(relayer)))
		defs = append(defs, gdef{hash, fee, sender, gasLimit})
	}
	var accounts [][]byte
	seenAcc := map[string]bool{}
	for _, a := range append(append([][]byte{}, senders...), relayers...) {
		if !seenAcc[string(a)] {
			seenAcc[string(a)] = true
			accounts = append(accounts, a)
		}
	}
	easy := false
	genSession := func() string {
		var sb strings.Builder
		if rng.Intn(4) == 0 {
			sb.WriteString(" drift")
		}
		if easy {
			// a benign session: every account resolves, nonce 0, rich; at most one hazard
			for _, a := range accounts {
				nonce := 0
				switch rng.Intn(10) {
				case 0, 1:
					nonce = 1
				case 2:
					nonce = 2
				}
				fmt.Fprintf(&sb, " a:%s:%d:%s", hx(a), nonce, bigPow2(100))
			}
			if rng.Intn(4) == 0 {
				fmt.Fprintf(&sb, " bad:%s", hx(defs[rng.Intn(len(defs))].hash))
			}
			return sb.String()
		}
		for _, a := range accounts {
			if rng.Intn(10) == 0 {
				fmt.Fprintf(&sb, " a:%s:err", hx(a))
				continue
			}
			nonce := uint64(rng.Intn(4))
			if rng.Intn(3) != 0 {
				nonce = 0
			}
			if rng.Intn(25) == 0 {
				nonce = ^uint64(0) - uint64(rng.Intn(2))
			}
			var bal *big.Int
			d := defs[rng.Intn(len(defs))]
			if flavour == 1 && rng.Intn(3) != 0 {
				bal := pick(rng, new(big.Int).Sub(bigPow2(64), big.NewInt(int64(1+rng.Intn(100)))), new(big.Int).Add(bigPow2(63), big.NewInt(int64(rng.Intn(100)))), new(big.Int).Add(bigPow2(64), big.NewInt(int64(rng.Intn(100)))))
				fmt.Fprintf(&sb, " a:%s:%d:%s", hx(a), nonce, bal)
				continue
			}
			switch rng.Intn(16) {
			case 0:
				bal = big.NewInt(0)
			case 1:
				bal = new(big.Int).Sub(d.fee, big.NewInt(1))
				if bal.Sign() < 0 {
					bal = big.NewInt(0)
				}
			case 2:
				bal = new(big.Int).Set(d.fee)
			case 3:
				bal = new(big.Int).Add(bigPow2(64), big.NewInt(int64(rng.Intn(3))-1))
			case 4:
				bal = bigPow2(80)
			case 5:
				bal = new(big.Int).Mul(d.fee, big.NewInt(2))
			case 6:
				bal = big.NewInt(int64(rng.Intn(200000)))
			case 7:
				bal = new(big.Int).SetUint64(^uint64(0) - uint64(rng.Intn(1000)))
			case 8:
				bal = new(big.Int).SetUint64(uint64(1)<<63 + uint64(rng.Intn(1000)))
			default:
				bal = bigPow2(100)
			}
			fmt.Fprintf(&sb, " a:%s:%d:%s", hx(a), nonce, bal)
		}
		for _, d := range defs {
			if rng.Intn(14) == 0 {
				fmt.Fprintf(&sb, " bad:%s", hx(d.hash))
			}
		}
		return sb.String()
	}
	genLimits := func() (uint64, int) {
		easy = rng.Intn(2) == 0
		if easy {
			return pick(rng, ^uint64(0), ^uint64(0), 1000000, 150010, 100, 21), pick(rng, 1000, 1000, 30000, 5, 3, 2)
		}
		gas := pick(rng, uint64(0), 1, 10, 21, 50000, 100000, 150010, ^uint64(0), ^uint64(0), ^uint64(0)-1, 1<<63)
		mx := pick(rng, -1, 0, 1, 2, 3, 5, 1000, 1000, 30000)
		return gas, mx
	}
	for i := 0; i < steps; i++ {
		d := defs[rng.Intn(len(defs))]
		x := rng.Intn(100)
		if mode >= 3 && i > steps/3 && x < 60 {
			x = 80 + rng.Intn(20)
		}
		switch {
		case x < 66:
			h = append(h, "add "+hx(d.hash))
		case x < 76:
			h = append(h, "rm "+hx(d.hash))
		case x < 78:
			h = append(h, "clear")
		case x < 88:
			gas, mx := genLimits()
			h = append(h, fmt.Sprintf("sel %d %d %s%s", gas, mx, b01(!easy && rng.Intn(12) == 0), genSession()))
		case x < 97:
			gas, mx := genLimits()
			h = append(h, fmt.Sprintf("selb %d %d %s%s", gas, mx, b01(!easy && rng.Intn(12) == 0), genSession()))
		default:
			gas, mx := genLimits()
			h = append(h, fmt.Sprintf("selperm %d %d %d%s", rng.Int63n(1<<30), gas, mx, genSession()))
		}
	}
	return h
}
