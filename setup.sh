#!/bin/sh
# offline build of the framework from files on disk only
set -e
cd "$(dirname "$0")"
mkdir -p .work evidence replays lean/SV/Generated
export GOFLAGS=-mod=mod GOPROXY=off GOSUMDB=off GOTOOLCHAIN=local GOWORK=off
cp /repo/go.sum harness/go.sum
(cd harness && go build -tags verif -o ../.work/svh ./cmd/svh && go build -race -tags verif -o ../.work/svh-race ./cmd/svh)
(cd tools/extract && go build -o ../../.work/extract .)
./.work/extract /repo > lean/SV/Generated/Facts.lean
./.work/extract -funcs /repo > lean/SV/Generated/Funcs.lean
(cd lean && lake build SV svdriver)
echo setup-ok
